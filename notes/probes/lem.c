#include <stdint.h>
#include <stddef.h>
#include <stdbool.h>
#pragma pack(push, 1)
struct Vendor { uint16_t reserved; uint16_t vendorId; };
struct MessageHeader { uint64_t timestamp; union { uint32_t interfaceId; struct Vendor vendor; }; uint8_t commonFlags; uint8_t payloadType; uint16_t payloadLength; };
#pragma pack(pop)
#define B(p,i) (((const uint8_t*)(p))[i])
uint16_t MessageHeader_getPayloadLength(const struct MessageHeader *this)
__CPROVER_requires(__CPROVER_r_ok(this, sizeof(*this)))
__CPROVER_ensures(__CPROVER_return_value == (uint16_t)((B(this,14) << 8) | B(this,15)))
__CPROVER_assigns();
void MessageHeader_setPayloadLength(struct MessageHeader *this, const uint16_t length)
__CPROVER_requires(__CPROVER_rw_ok(this, sizeof(*this)))
__CPROVER_ensures(B(this,14) == ((length >> 8) & 0xff) && B(this,15) == (length & 0xff))
__CPROVER_assigns(this->payloadLength);
uint8_t MessageHeader_getCommonFlags(const struct MessageHeader *this)
__CPROVER_requires(__CPROVER_r_ok(this, sizeof(*this)))
__CPROVER_ensures(__CPROVER_return_value == B(this,12))
__CPROVER_assigns();

void lemma_set_get(struct MessageHeader *h, uint16_t v)
__CPROVER_requires(__CPROVER_is_fresh(h, sizeof *h))
__CPROVER_assigns(*h)
{
    uint8_t snap[16]; for (int i = 0; i < 16; i++) snap[i] = B(h,i);
    uint8_t f0 = MessageHeader_getCommonFlags(h);
    MessageHeader_setPayloadLength(h, v);
    __CPROVER_assert(MessageHeader_getPayloadLength(h) == v, "C11 readback");
    __CPROVER_assert(MessageHeader_getCommonFlags(h) == f0, "C11 other field unchanged");
    for (int i = 0; i < 14; i++) __CPROVER_assert(B(h,i) == snap[i], "C11 other bytes unchanged");
}
void hl(void){ struct MessageHeader *h; uint16_t v; lemma_set_get(h, v); }
