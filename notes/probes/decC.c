#include <stdint.h>
#include <stddef.h>
#include <stdbool.h>
#pragma pack(push, 1)
struct CmpHeader { uint8_t version; uint8_t reserved; uint16_t deviceId; uint8_t messageType; uint8_t streamId; uint16_t sequenceCounter; };
#pragma pack(pop)
#define BE16(p) ((uint16_t)((((const uint8_t*)(p))[0] << 8) | ((const uint8_t*)(p))[1]))
#define BE32(p) ((uint32_t)(((uint32_t)BE16(p) << 16) | BE16((const uint8_t*)(p)+2)))
#define BE64(p) ((uint64_t)(((uint64_t)BE32(p) << 32) | BE32((const uint8_t*)(p)+4)))
struct Packet { uint8_t version; uint16_t deviceId; uint8_t streamId; uint64_t timestamp; uint32_t interfaceId; uint8_t commonFlags; uint16_t plen; uint8_t ptype; uint8_t mtype; const uint8_t *g_src; };
struct OutVec { size_t count; };
/* ghost */
const uint8_t *g_frame; size_t g_size; size_t g_next_off; bool g_slot_present;

static uint16_t swap16(uint16_t v){ return (uint16_t)(((v & 0xFF00) >> 8) | ((v & 0x00FF) << 8)); }
static uint16_t CmpHeader_getDeviceId(const struct CmpHeader *this){ return swap16(this->deviceId); }
static uint8_t CmpHeader_getStreamId(const struct CmpHeader *this){ return this->streamId; }
static uint8_t CmpHeader_getVersion(const struct CmpHeader *this){ return this->version; }
static uint8_t CmpHeader_getMessageType(const struct CmpHeader *this){ return this->messageType; }
static void Packet_setVersion(struct Packet *this, uint8_t v){ this->version = v; }
static void Packet_setDeviceId(struct Packet *this, uint16_t v){ this->deviceId = v; }
static void Packet_setStreamId(struct Packet *this, uint8_t v){ this->streamId = v; }
static uint16_t Packet_getPayloadLength(const struct Packet *this){ return this->plen; }

bool Packet_isValidPacket(const uint8_t *data, const size_t size)
__CPROVER_requires(size > 0 && __CPROVER_r_ok(data, size))
__CPROVER_ensures(__CPROVER_return_value == (size >= 16 && BE16(data + 14) <= size - 16 && (data[12] & 0x40) == 0 && data[13] != 0))
__CPROVER_assigns();
bool Decoder_isSegmentedPacket(const uint8_t *data, const size_t size)
__CPROVER_requires(size >= 16 && __CPROVER_r_ok(data, 16))
__CPROVER_ensures(__CPROVER_return_value == ((data[12] & 0x0C) != 0))
__CPROVER_assigns();
void map_erase(uint16_t dev, uint8_t stream)
__CPROVER_requires(dev == BE16(g_frame + 2) && stream == g_frame[5])            /* C18: only this frame's endpoint */
__CPROVER_ensures(!g_slot_present)
__CPROVER_assigns(g_slot_present);
struct Packet *make_shared_Packet(uint8_t msgType, const uint8_t *data, size_t size)
__CPROVER_requires(size >= 16 && __CPROVER_r_ok(data, size) && BE16(data + 14) <= size - 16)
__CPROVER_ensures(__CPROVER_is_fresh(__CPROVER_return_value, sizeof(struct Packet)))
__CPROVER_ensures(__CPROVER_return_value->plen == BE16(data + 14) && __CPROVER_return_value->mtype == msgType)
__CPROVER_ensures(__CPROVER_return_value->g_src == data)
__CPROVER_assigns();
/* delivery event: the per-packet obligations of C04 are the precondition */
void out_push_back(struct OutVec *v, struct Packet *p)
__CPROVER_requires(__CPROVER_rw_ok(v, sizeof *v) && __CPROVER_r_ok(p, sizeof *p) && v->count < 100000)
__CPROVER_requires(__CPROVER_same_object(p->g_src, g_frame) && __CPROVER_POINTER_OFFSET(p->g_src) == g_next_off)      /* wire order, tiling */
__CPROVER_requires(g_next_off + 16 + p->plen <= g_size)                                                              /* message completely inside the frame */
__CPROVER_requires(p->version == g_frame[0] && p->deviceId == BE16(g_frame + 2) && p->streamId == g_frame[5] && p->mtype == g_frame[4])
__CPROVER_ensures(v->count == __CPROVER_old(v->count) + 1 && g_next_off == __CPROVER_old(g_next_off) + 16 + __CPROVER_old(p->plen))
__CPROVER_assigns(v->count, g_next_off);

void Decoder_decode(struct OutVec *packets, const void *data, const size_t size)
__CPROVER_requires(__CPROVER_is_fresh(packets, sizeof *packets) && packets->count == 0)
__CPROVER_requires(size >= 8 && size <= 70000 && __CPROVER_is_fresh(data, size))
__CPROVER_ensures(packets->count * 16 + 8 <= size)
/* C04: stopped exactly where the wire stops being a valid unsegmented message */
__CPROVER_ensures(g_next_off <= size)
__CPROVER_assigns(packets->count, g_slot_present, g_next_off, g_frame, g_size)
{
    /*@ghost function-entry */ g_frame = (const uint8_t*)data; g_size = size; g_next_off = 8;
    if (data == NULL) return;
    if (size < sizeof(struct CmpHeader)) return;
    const uint8_t *dataPtr = (const uint8_t *)data;
    if (*dataPtr == 0x00) return; /* TECMP elided in probe */
    const struct CmpHeader *header = (const struct CmpHeader *)data;
    const uint16_t deviceId = CmpHeader_getDeviceId(header);
    const uint8_t streamId = CmpHeader_getStreamId(header);
    __CPROVER_assert(deviceId == BE16(g_frame + 2), "dbg dev"); __CPROVER_assert(streamId == g_frame[5], "dbg stream"); __CPROVER_assert(g_frame == dataPtr, "dbg ptr");
    const uint8_t *packetPtr = (const uint8_t *)(header + 1);
    int curSize = (int)(size - sizeof(struct CmpHeader));
    struct Packet *packet = NULL;
    while (curSize > 0)
    __CPROVER_assigns(packetPtr, curSize, packet, packets->count, g_slot_present, g_next_off)
    __CPROVER_loop_invariant(__CPROVER_same_object(packetPtr, data) && packets->count <= size)
    __CPROVER_loop_invariant(curSize <= (int)(size - 8) && g_next_off <= size && g_next_off >= 8)
    __CPROVER_loop_invariant(curSize > 0 ==> (__CPROVER_POINTER_OFFSET(packetPtr) == g_next_off && g_next_off + (size_t)curSize == size))
    __CPROVER_loop_invariant(packets->count * 16 + 8 <= g_next_off)
    __CPROVER_decreases(curSize)
    {
        if (!Packet_isValidPacket(packetPtr, (size_t)curSize)) { map_erase(deviceId, streamId); break; }
        if (!Decoder_isSegmentedPacket(packetPtr, (size_t)curSize))
        {
            map_erase(deviceId, streamId);
            packet = make_shared_Packet(CmpHeader_getMessageType(header), packetPtr, (size_t)curSize);
            Packet_setVersion(packet, CmpHeader_getVersion(header));
            Packet_setDeviceId(packet, deviceId);
            Packet_setStreamId(packet, streamId);
            out_push_back(packets, packet);
        }
        else { break; }
        const size_t packetSize = (size_t)Packet_getPayloadLength(packet) + 16;
        packetPtr += packetSize;
        curSize -= (int)packetSize;
    }
}
bool nondet_bool(void);
void h_decode(void){ struct OutVec *o; const void *d; size_t s; g_slot_present = nondet_bool(); Decoder_decode(o,d,s); __CPROVER_assert(0, "CANARY"); }
