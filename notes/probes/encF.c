#include <stdint.h>
#include <stddef.h>
#include <stdbool.h>
/* ---- models (stable frame buffer: only the current frame is materialised) ---- */
struct vec_u8 { uint8_t *d; size_t n; };
struct frames { size_t n; struct vec_u8 back; };
struct Payload { struct vec_u8 payloadData; uint32_t type; };
struct Packet { struct Payload *payload; uint8_t version; uint64_t timestamp; uint32_t interfaceId; uint8_t commonFlags; };
struct Encoder { size_t minB; size_t maxB; uint16_t deviceId; uint8_t streamId; size_t bytesLeft; uint16_t sequenceCounter; uint8_t messageType; struct frames cmpFrames; };

/* ---- ghost monitor M_E ---- */
size_t  g_pkt_pos;        /* payload bytes of the current packet already emitted */
size_t  g_frame_msgs;     /* messages in the current frame */
bool    g_frame_has_seg;  /* current frame holds a segment */
uint8_t g_seg_state;      /* 0 none, 4 after first, 8 after intermediary */
bool    g_frame_closed;   /* current frame trimmed, nothing may be appended */

#define LEN(p)   ((size_t)(uint16_t)(p)->payload->payloadData.n)
#define MTYPE(p) ((uint8_t)((p)->payload->type >> 8))
#define BUFOK(e) ((e)->cmpFrames.back.d == g_buf)
uint8_t *g_buf;           /* the stable buffer */

/* leaf accessors: real bodies, inlined */
static uint16_t Packet_getPayloadLength(const struct Packet *p) { return p->payload ? (uint16_t)p->payload->payloadData.n : 0; }
static uint8_t Packet_getMessageType(const struct Packet *p) { return (uint8_t)((p->payload->type & 0xFF00u) >> 8); }
static const uint8_t *Payload_getRawPayload(const struct Payload *p) { return p->payloadData.d; }
static size_t min_sz(size_t a, size_t b) { return b < a ? b : a; }

/* Inv_open: a frame is open for appending */
#define INV_FRAME(e) ((e)->cmpFrames.n > 0 &&  BUFOK(e) && (e)->bytesLeft <= (e)->maxB - 8 && \
   (g_frame_closed ? ((e)->bytesLeft == 0 && g_frame_msgs >= 1 && g_frame_msgs <= (e)->maxB) : ((e)->cmpFrames.back.n == (e)->maxB && g_frame_msgs <= (e)->maxB && 8 + 17 * g_frame_msgs <= (e)->maxB - (e)->bytesLeft)))

void Encoder_addNewCMPFrame(struct Encoder *e, const struct Packet *p)
__CPROVER_requires(__CPROVER_rw_ok(e, sizeof *e) && e->maxB >= 25 && e->maxB <= 65559 && e->minB <= e->maxB)
__CPROVER_requires(e->cmpFrames.n < 4000000000ul)
__CPROVER_requires(e->cmpFrames.n > 0 ==> (BUFOK(e) && g_frame_msgs >= 1))               /* C07: never close an empty frame */
__CPROVER_requires(g_seg_state == 0 || e->bytesLeft == 0)                                  /* C08: non-last segments fill the frame */
__CPROVER_ensures(e->bytesLeft == e->maxB - 8 && e->cmpFrames.n == __CPROVER_old(e->cmpFrames.n) + 1)
__CPROVER_ensures(e->sequenceCounter == (uint16_t)(__CPROVER_old(e->sequenceCounter) + 1))
__CPROVER_ensures(BUFOK(e) && e->cmpFrames.back.n == e->maxB)
__CPROVER_ensures(g_frame_msgs == 0 && !g_frame_has_seg && !g_frame_closed)
__CPROVER_assigns(e->bytesLeft, e->cmpFrames, e->sequenceCounter, g_frame_msgs, g_frame_has_seg, g_frame_closed);

void Encoder_setMessageType(struct Encoder *e, const struct Packet *p)
__CPROVER_requires(__CPROVER_rw_ok(e, sizeof *e) && e->maxB >= 25 && e->maxB <= 65559 && e->minB <= e->maxB)
__CPROVER_requires(e->cmpFrames.n > 0 ==> (BUFOK(e) && g_frame_msgs >= 1))
__CPROVER_requires(g_seg_state == 0)
__CPROVER_ensures(e->bytesLeft == e->maxB - 8 && e->cmpFrames.n == __CPROVER_old(e->cmpFrames.n) + 1)
__CPROVER_ensures(e->sequenceCounter == (uint16_t)(__CPROVER_old(e->sequenceCounter) + 1))
__CPROVER_ensures(BUFOK(e) && e->cmpFrames.back.n == e->maxB)
__CPROVER_ensures(g_frame_msgs == 0 && !g_frame_has_seg && !g_frame_closed)
__CPROVER_ensures(e->messageType == MTYPE(p))
__CPROVER_assigns(e->bytesLeft, e->cmpFrames, e->sequenceCounter, e->messageType, g_frame_msgs, g_frame_has_seg, g_frame_closed);

bool Encoder_checkIfSegmented(struct Encoder *e, const struct Packet *p)
__CPROVER_requires(__CPROVER_rw_ok(e, sizeof *e) && e->maxB >= 25 && e->maxB <= 65559 && e->minB <= e->maxB)
__CPROVER_requires(INV_FRAME(e) && g_seg_state == 0 && (g_frame_msgs >= 1 || e->bytesLeft == e->maxB - 8))
__CPROVER_ensures(__CPROVER_return_value == (16 + LEN(p) > e->maxB - 8))                   /* C08: split only if it cannot fit an empty frame */
__CPROVER_ensures(INV_FRAME(e) && !g_frame_closed)
__CPROVER_ensures(!__CPROVER_return_value ==> (e->bytesLeft >= 16 + LEN(p) && !g_frame_has_seg))
__CPROVER_ensures(__CPROVER_return_value ==> (g_frame_msgs == 0 && !g_frame_has_seg && e->bytesLeft == e->maxB - 8))
__CPROVER_ensures(e->cmpFrames.n >= __CPROVER_old(e->cmpFrames.n) && e->cmpFrames.n <= __CPROVER_old(e->cmpFrames.n) + 1)
__CPROVER_assigns(e->bytesLeft, e->cmpFrames, e->sequenceCounter, g_frame_msgs, g_frame_has_seg, g_frame_closed);

uint8_t Encoder_buildSegmentationFlag(const struct Encoder *e, bool isSegmented, int segmentInd, uint16_t bytesToAdd, size_t payloadSize, size_t pos)
__CPROVER_ensures(__CPROVER_return_value == (!isSegmented ? 0 : segmentInd == 0 ? 4 : (pos + bytesToAdd == payloadSize ? 12 : 8)))
__CPROVER_assigns();

/* emit message header event */
void Encoder_addNewDataHeader(struct Encoder *e, const struct Packet *p, uint16_t bytesToAdd, uint8_t flag)
__CPROVER_requires(__CPROVER_rw_ok(e, sizeof *e) && INV_FRAME(e) && !g_frame_closed && e->bytesLeft >= 16)
__CPROVER_requires(e->messageType == MTYPE(p))                                            /* C08: frame type == message type */
__CPROVER_requires(!g_frame_has_seg)                                                      /* C08: nothing after a segment */
__CPROVER_requires(flag != 0 ==> g_frame_msgs == 0)                                       /* C08: segment alone */
__CPROVER_requires(flag == 0 || flag == 4 ? g_seg_state == 0 : (g_seg_state == 4 || g_seg_state == 8))   /* C08: first, intermediary..., last */
__CPROVER_requires((flag == 4 || flag == 8) ==> (size_t)bytesToAdd + 16 == e->bytesLeft)  /* C08: fills the frame */
__CPROVER_requires(flag == 0 ==> (size_t)bytesToAdd == LEN(p))                            /* C08: fitting packets are not split */
__CPROVER_requires((size_t)bytesToAdd + 16 <= e->bytesLeft && bytesToAdd >= 1)            /* C07: at least one complete message fits */
__CPROVER_ensures(e->bytesLeft == __CPROVER_old(e->bytesLeft) - 16)
__CPROVER_ensures(g_frame_msgs == __CPROVER_old(g_frame_msgs) + 1 && g_frame_has_seg == (flag != 0) && g_seg_state == (flag == 12 ? 0 : flag))
__CPROVER_assigns(e->bytesLeft, g_frame_msgs, g_frame_has_seg, g_seg_state);

/* copy payload slice event; the ghost position is advanced by the contract */
void *memcpy_slice(void *dst, const void *src, size_t n, const struct Encoder *e, const struct Packet *p)
__CPROVER_requires(n >= 1 && __CPROVER_w_ok(dst, n) && __CPROVER_r_ok(src, n))
__CPROVER_requires(src == p->payload->payloadData.d + g_pkt_pos)                          /* C01/C07: next slice, in order, exactly once */
__CPROVER_requires(dst == g_buf + (e->cmpFrames.back.n - e->bytesLeft) && n <= e->bytesLeft)   /* C07: directly after its header, inside the frame */
__CPROVER_requires(g_pkt_pos + n <= LEN(p))
__CPROVER_ensures(g_pkt_pos == __CPROVER_old(g_pkt_pos) + n)
__CPROVER_assigns(g_pkt_pos);

void frame_close(struct Encoder *e)   /* models: cmpFrames.back().resize(max(size - bytesLeft, min), 0); bytesLeft = 0 */
__CPROVER_requires(__CPROVER_rw_ok(e, sizeof *e) && INV_FRAME(e) && !g_frame_closed && g_frame_msgs >= 1)
__CPROVER_ensures(g_frame_closed && e->bytesLeft == 0 && BUFOK(e) && e->cmpFrames.n == __CPROVER_old(e->cmpFrames.n))
__CPROVER_assigns(e->bytesLeft, e->cmpFrames.back.n, g_frame_closed);

void Encoder_putPacket(struct Encoder *this, const struct Packet *packet)
__CPROVER_requires(__CPROVER_is_fresh(this, sizeof *this) && __CPROVER_is_fresh(packet, sizeof *packet) && __CPROVER_is_fresh(packet->payload, sizeof *packet->payload))
__CPROVER_requires(packet->payload->payloadData.n >= 1 && packet->payload->payloadData.n <= 65535 && __CPROVER_is_fresh(packet->payload->payloadData.d, packet->payload->payloadData.n))
__CPROVER_requires(this->maxB >= 25 && this->maxB <= 65559 && this->minB <= this->maxB)
__CPROVER_requires(__CPROVER_is_fresh(g_buf, 65559))
__CPROVER_requires(this->cmpFrames.n < 3000000000ul)
__CPROVER_requires(this->cmpFrames.n > 0 ? (INV_FRAME(this) && g_frame_msgs >= 1 && this->messageType != 0) : this->messageType == 0)
__CPROVER_requires(MTYPE(packet) != 0 && g_seg_state == 0 && g_pkt_pos == 0)
__CPROVER_ensures(g_pkt_pos == LEN(packet))                                               /* C07: every payload byte exactly once */
__CPROVER_ensures(INV_FRAME(this) && g_frame_msgs >= 1 && g_seg_state == 0 && this->messageType == MTYPE(packet))
__CPROVER_assigns(this->bytesLeft, this->cmpFrames, this->sequenceCounter, this->messageType, g_frame_msgs, g_frame_has_seg, g_frame_closed, g_seg_state, g_pkt_pos)
{
    if (this->messageType != Packet_getMessageType(packet))
        Encoder_setMessageType(this, packet);

    size_t currentPayloadPos = 0;
    bool isSegmented = Encoder_checkIfSegmented(this, packet);
    int segmentInd = 0;

    while (currentPayloadPos < (size_t)Packet_getPayloadLength(packet))
    __CPROVER_assigns(currentPayloadPos, segmentInd, this->bytesLeft, this->cmpFrames, this->sequenceCounter, g_frame_msgs, g_frame_has_seg, g_frame_closed, g_seg_state, g_pkt_pos)
    __CPROVER_loop_invariant(currentPayloadPos <= LEN(packet) && g_pkt_pos == currentPayloadPos)
    __CPROVER_loop_invariant(0 <= segmentInd && (size_t)segmentInd <= currentPayloadPos && ((segmentInd == 0) == (currentPayloadPos == 0)))
    __CPROVER_loop_invariant(INV_FRAME(this) && this->messageType == MTYPE(packet))
    __CPROVER_loop_invariant(this->cmpFrames.n <= __CPROVER_loop_entry(this->cmpFrames.n) + (size_t)segmentInd && __CPROVER_loop_entry(this->cmpFrames.n) <= 3000000002ul)
    __CPROVER_loop_invariant(!isSegmented ==> (currentPayloadPos == 0
            ? (this->bytesLeft >= 16 + LEN(packet) && g_seg_state == 0 && !g_frame_has_seg && !g_frame_closed)
            : (currentPayloadPos == LEN(packet) && g_frame_msgs >= 1 && g_seg_state == 0)))
    __CPROVER_loop_invariant(isSegmented ==> (16 + LEN(packet) > this->maxB - 8 && (currentPayloadPos == 0
            ? (g_frame_msgs == 0 && this->bytesLeft == this->maxB - 8 && g_seg_state == 0 && !g_frame_has_seg && !g_frame_closed)
            : (currentPayloadPos < LEN(packet)
                  ? (this->bytesLeft == 0 && !g_frame_closed && g_frame_msgs == 1 && (g_seg_state == 4 || g_seg_state == 8))
                  : (g_frame_closed && g_frame_msgs >= 1 && g_seg_state == 0)))))
    __CPROVER_decreases(LEN(packet) - currentPayloadPos)
    {
        if (this->bytesLeft < 16)
            Encoder_addNewCMPFrame(this, packet);

        uint16_t bytesToAdd = (uint16_t)min_sz((size_t)(this->bytesLeft - 16), (size_t)Packet_getPayloadLength(packet) - currentPayloadPos);
        uint8_t isSegmentedFlag = Encoder_buildSegmentationFlag(this, isSegmented, segmentInd, bytesToAdd, (size_t)Packet_getPayloadLength(packet), currentPayloadPos);
        Encoder_addNewDataHeader(this, packet, bytesToAdd, isSegmentedFlag);

        struct vec_u8 *cmpFrame = &this->cmpFrames.back;
        memcpy_slice(&cmpFrame->d[cmpFrame->n - this->bytesLeft], Payload_getRawPayload(packet->payload) + currentPayloadPos, bytesToAdd, this, packet);
        ++segmentInd;
        currentPayloadPos += bytesToAdd;
        this->bytesLeft -= bytesToAdd;

        if (isSegmentedFlag == 12)
            frame_close(this);
    }
}
bool nondet_bool(void); size_t nondet_size_t(void); uint8_t nondet_u8(void);
void h(void){ struct Encoder *e; const struct Packet *p;
  g_pkt_pos = nondet_size_t(); g_frame_msgs = nondet_size_t(); g_frame_has_seg = nondet_bool(); g_seg_state = nondet_u8(); g_frame_closed = nondet_bool();
  Encoder_putPacket(e,p); __CPROVER_assert(0, "CANARY"); }
