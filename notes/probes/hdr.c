#include <stdint.h>
#include <stddef.h>
#include <stdbool.h>
#pragma pack(push, 1)
struct Vendor { uint16_t reserved; uint16_t vendorId; };
struct MessageHeader { uint64_t timestamp; union { uint32_t interfaceId; struct Vendor vendor; }; uint8_t commonFlags; uint8_t payloadType; uint16_t payloadLength; };
#pragma pack(pop)
struct vec_u8 { uint8_t *d; size_t n; };
struct frames { size_t n; struct vec_u8 back; };
struct Encoder { size_t minB; size_t maxB; size_t bytesLeft; struct frames cmpFrames; };
struct Packet { uint64_t timestamp; uint32_t interfaceId; uint16_t vendorId; uint8_t commonFlags; uint8_t ptype; uint8_t mtype; uint16_t plen; };
size_t g_k;   /* ghost index into the frame */
static uint16_t swap16(uint16_t v){ return (uint16_t)(((v & 0xFF00) >> 8) | ((v & 0x00FF) << 8)); }
static void MessageHeader_setPayloadLength(struct MessageHeader *h, uint16_t l){ h->payloadLength = swap16(l); }
static void MessageHeader_setSegmentType(struct MessageHeader *h, uint8_t t){ h->commonFlags &= (uint8_t)~0x0C; h->commonFlags |= t; }
#define B(p,i) (((const uint8_t*)(p))[i])
/* layer B contract of Packet::getRawMessageHeader, proved in its own 16-byte harness */
void Packet_getRawMessageHeader(const struct Packet *p, void *dest)
__CPROVER_requires(__CPROVER_r_ok(p, sizeof *p) && __CPROVER_w_ok(dest, 16))
__CPROVER_assigns(__CPROVER_object_upto(dest, 16))
__CPROVER_ensures(B(dest,0) == (uint8_t)(p->timestamp >> 56) && B(dest,7) == (uint8_t)p->timestamp)
__CPROVER_ensures(B(dest,12) == p->commonFlags && B(dest,13) == p->ptype && B(dest,14) == (uint8_t)(p->plen >> 8) && B(dest,15) == (uint8_t)p->plen)
__CPROVER_ensures(p->mtype == 1 ==> (B(dest,8) == (uint8_t)(p->interfaceId >> 24) && B(dest,11) == (uint8_t)p->interfaceId));

void Encoder_addNewDataHeader(struct Encoder *this, const struct Packet *packet, uint16_t bytesToAdd, uint8_t segmentationFlag)
__CPROVER_requires(__CPROVER_is_fresh(this, sizeof *this) && __CPROVER_is_fresh(packet, sizeof *packet))
__CPROVER_requires(this->maxB >= 25 && this->maxB <= 65559 && this->cmpFrames.back.n == this->maxB && __CPROVER_is_fresh(this->cmpFrames.back.d, this->maxB))
__CPROVER_requires(this->bytesLeft >= 16 && this->bytesLeft <= this->maxB - 8)
__CPROVER_requires(segmentationFlag == 0 || segmentationFlag == 4 || segmentationFlag == 8 || segmentationFlag == 12)
__CPROVER_assigns(this->bytesLeft, __CPROVER_object_upto(this->cmpFrames.back.d + (this->cmpFrames.back.n - this->bytesLeft), 16))
__CPROVER_ensures(this->bytesLeft == __CPROVER_old(this->bytesLeft) - 16)
/* content of the 16-byte window, stated relative to the cursor */
__CPROVER_ensures(B(this->cmpFrames.back.d + (this->maxB - __CPROVER_old(this->bytesLeft)), 14) == (uint8_t)(bytesToAdd >> 8) && B(this->cmpFrames.back.d + (this->maxB - __CPROVER_old(this->bytesLeft)), 15) == (uint8_t)bytesToAdd)
__CPROVER_ensures((B(this->cmpFrames.back.d + (this->maxB - __CPROVER_old(this->bytesLeft)), 12) & 0x0C) == segmentationFlag && (B(this->cmpFrames.back.d + (this->maxB - __CPROVER_old(this->bytesLeft)), 12) & 0xF3) == (packet->commonFlags & 0xF3))
__CPROVER_ensures(B(this->cmpFrames.back.d + (this->maxB - __CPROVER_old(this->bytesLeft)), 13) == packet->ptype && B(this->cmpFrames.back.d + (this->maxB - __CPROVER_old(this->bytesLeft)), 0) == (uint8_t)(packet->timestamp >> 56))
/* frame: every byte outside the window unchanged (ghost index) */
__CPROVER_ensures((g_k < this->maxB && (g_k < this->maxB - __CPROVER_old(this->bytesLeft) || g_k >= this->maxB - __CPROVER_old(this->bytesLeft) + 16)) ==> this->cmpFrames.back.d[g_k] == __CPROVER_old(this->cmpFrames.back.d[g_k & -(size_t)(g_k < this->maxB)]))
{
    struct vec_u8 *cmpFrame = &this->cmpFrames.back;
    struct MessageHeader *header = (struct MessageHeader *)(&cmpFrame->d[cmpFrame->n - this->bytesLeft]);
    Packet_getRawMessageHeader(packet, (void *)header);
    MessageHeader_setPayloadLength(header, bytesToAdd);
    MessageHeader_setSegmentType(header, segmentationFlag);
    this->bytesLeft -= sizeof(struct MessageHeader);
}
size_t nondet_size_t(void);
void h(void){ struct Encoder *e; const struct Packet *p; uint16_t n; uint8_t f; g_k = nondet_size_t(); Encoder_addNewDataHeader(e,p,n,f); __CPROVER_assert(0,"CANARY"); }
