#!/usr/bin/env python3
"""Throw-away proof of concept: clang JSON AST -> C for the POD header classes."""
import json, sys, re, subprocess, collections

class Unsupported(Exception): pass

def load_docs(path):
    s = open(path).read(); dec = json.JSONDecoder(); i = 0; out = []
    while i < len(s):
        while i < len(s) and s[i] in ' \n\r\t': i += 1
        if i >= len(s): break
        if s.startswith('Dumping', i):
            i = s.index('\n', i) + 1; continue
        o, j = dec.raw_decode(s, i); out.append(o); i = j
    return out

BUILTIN = {'unsigned char':'uint8_t','unsigned short':'uint16_t','unsigned int':'uint32_t','unsigned long':'uint64_t',
           'signed char':'int8_t','short':'int16_t','int':'int','long':'int64_t','bool':'_Bool','float':'float','double':'double','char':'char','void':'void',
           'unsigned long long':'uint64_t','long long':'int64_t'}

class TU:
    def __init__(self):
        self.records = {}    # qualified name -> node
        self.enums = {}      # qualified name -> node
        self.byid = {}       # decl id -> (node, qualified name)
        self.funcs = []      # (qualname, node, parent record qualname or None)
        self.statics = {}    # id -> value expr node
    def index(self, n, scope):
        k = n.get('kind'); name = n.get('name')
        if 'id' in n: self.byid[n['id']] = (n, scope)
        if k == 'NamespaceDecl':
            for c in n.get('inner', []): self.index(c, scope + [name])
        elif k == 'CXXRecordDecl':
            if n.get('completeDefinition') and not n.get('isImplicit'):
                q = '::'.join(scope + [name or ('anon_' + n['id'][-5:])])
                self.records[q] = n; n['_q'] = q
                for c in n.get('inner', []): self.index(c, scope + [name or ('anon_' + n['id'][-5:])])
        elif k == 'EnumDecl':
            name = name or ('anonenum_' + n['id'][-5:]); q = '::'.join(scope + [name]); self.enums[q] = n; n['_q'] = q
            for c in n.get('inner', []):
                if 'id' in c: self.byid[c['id']] = (c, scope + [name])
        elif k in ('CXXMethodDecl', 'FunctionDecl', 'CXXConstructorDecl'):
            n['_scope'] = scope
            pid = n.get('parentDeclContextId')
            if pid and pid in self.byid and self.byid[pid][0].get('kind') == 'CXXRecordDecl':
                pr = self.byid[pid][0]
                if '_q' in pr: n['_scope'] = pr['_q'].split('::')
            if 'previousDecl' in n and n['previousDecl'] in self.byid:
                self.byid[n['id']] = (n, n['_scope'])
                self.alias = getattr(self, 'alias', {}); self.alias[n['previousDecl']] = n
            if any(c.get('kind') == 'CompoundStmt' for c in n.get('inner', [])):
                self.funcs.append(n)
        elif k == 'FunctionTemplateDecl':
            for c in n.get('inner', []):
                if c.get('kind') == 'FunctionDecl' and c.get('inner') and 'mangledName' in c and any(x.get('kind')=='TemplateArgument' for x in c.get('inner',[])):
                    c['_scope'] = scope; self.byid[c['id']] = (c, scope)
                    if any(x.get('kind') == 'CompoundStmt' for x in c.get('inner', [])): self.funcs.append(c)
        elif k == 'VarDecl':
            pass

def cname(q): return re.sub(r'[^A-Za-z0-9_]', '_', q.replace('::', '_'))

class Emitter:
    def __init__(self, tu): self.tu = tu
    def ctype(self, t, decl=''):
        q = t.get('desugaredQualType', t.get('qualType'))
        return self.ctype_s(q, decl)
    def ctype_s(self, q, decl=''):
        q = q.strip()
        m = re.match(r'^(.*?)\s*\*\s*(const)?$', q)
        if m:
            inner = self.ctype_s(m.group(1)); return f"{inner} *{'const ' if m.group(2) else ''}{decl}".rstrip()
        m = re.match(r'^(.*?)\s*&$', q)
        if m:
            inner = self.ctype_s(m.group(1)); return f"{inner} *{decl}".rstrip()
        const = ''
        if q.startswith('const '): const = 'const '; q = q[6:]
        if q.endswith(' const'): const = 'const '; q = q[:-6]
        q = re.sub(r'^(struct|class|enum) ', '', q)
        if q in BUILTIN: base = BUILTIN[q]
        elif q in self.tu.records: base = 'struct ' + cname(q)
        elif q in self.tu.enums: base = cname(q)
        elif q in ('uint8_t','uint16_t','uint32_t','uint64_t','int8_t','int16_t','int32_t','int64_t','size_t'): base = q
        else:
            cands = [r for r in list(self.tu.records) + list(self.tu.enums) if r.endswith('::' + q)]
            if len(cands) == 1: return self.ctype_s(const + cands[0], decl)
            raise Unsupported('type ' + q)
        return f"{const}{base} {decl}".rstrip()
    # ---------- expressions
    def e(self, n):
        k = n['kind']; f = getattr(self, 'e_' + k, None)
        if not f: raise Unsupported('expr ' + k)
        return f(n)
    def sub(self, n, i=0): return self.e(n['inner'][i])
    def e_ParenExpr(self, n): return '(' + self.sub(n) + ')'
    def e_ConstantExpr(self, n): return self.sub(n)
    def e_ExprWithCleanups(self, n): return self.sub(n)
    def e_IntegerLiteral(self, n):
        t = n['type']['qualType']; suf = {'unsigned int':'u','unsigned long':'ul','long':'l','int':''}.get(t)
        if suf is None: raise Unsupported('int literal type ' + t)
        return n['value'] + suf
    def e_CXXBoolLiteralExpr(self, n): return '1' if n['value'] else '0'
    def e_FloatingLiteral(self, n): return (n['value'] if ('.' in n['value'] or 'e' in n['value']) else n['value'] + '.0') + 'f'
    def e_CXXThisExpr(self, n): return 'this'
    def e_ImplicitCastExpr(self, n):
        ck = n['castKind']; s = self.sub(n)
        if ck in ('LValueToRValue', 'NoOp', 'FunctionToPointerDecay', 'ArrayToPointerDecay'): return s
        if ck in ('IntegralCast', 'IntegralToBoolean', 'BitCast', 'IntegralToFloating', 'FloatingCast', 'NullToPointer', 'PointerToBoolean'):
            return f"(({self.ctype(n['type'])})({s}))"
        raise Unsupported('implicit cast ' + ck)
    def e_CXXStaticCastExpr(self, n): return f"(({self.ctype(n['type'])})({self.sub(n)}))"
    e_CXXReinterpretCastExpr = e_CXXStaticCastExpr
    e_CStyleCastExpr = e_CXXStaticCastExpr
    e_CXXFunctionalCastExpr = e_CXXStaticCastExpr
    def e_DeclRefExpr(self, n):
        r = n['referencedDecl']; k = r['kind']
        if k in ('ParmVarDecl',): return r['name']
        if k == 'VarDecl':
            d = self.tu.byid.get(r['id'])
            if d and d[0].get('storageClass') == 'static' or (d and d[0].get('constexpr') and d[1]):   # static constexpr member -> constant
                init = [c for c in d[0].get('inner', []) if 'Expr' in c['kind'] or 'Literal' in c['kind']]
                if not init: raise Unsupported('static without init ' + r['name'])
                return f"(({self.ctype(d[0]['type'])})({self.e(init[0])}))"
            return r['name']
        if k == 'EnumConstantDecl':
            d = self.tu.byid[r['id']]
            val = [c for c in d[0]['inner'] if c['kind'] == 'ConstantExpr'][0]['value']
            return f"(({self.ctype(n['type'])}){val})"
        if k in ('FunctionDecl', 'CXXMethodDecl'): return self.fname_ref(r)
        raise Unsupported('declref ' + k)
    def fname_ref(self, r):
        d = self.tu.byid.get(r['id'])
        node = d[0] if d else r
        return fname(node, self.tu)
    def e_MemberExpr(self, n):
        base = self.sub(n)
        if not n.get('name'): return base            # implicit anonymous-union member
        inner = n['inner'][0]
        arrow = n['isArrow']
        if inner.get('kind') == 'MemberExpr' and not inner.get('name'): arrow = inner['isArrow']
        return f"{base}{'->' if arrow else '.'}{n['name']}"
    def e_BinaryOperator(self, n):
        return f"({self.sub(n,0)} {n['opcode']} {self.sub(n,1)})"
    def e_CompoundAssignOperator(self, n):
        # computation type may differ; emit a = (T)((CT)a op b)
        lhs = self.sub(n, 0); rhs = self.sub(n, 1); op = n['opcode'][:-1]
        ct = n['computeResultType'].get('desugaredQualType', n['computeResultType']['qualType'])
        lt = n['computeLHSType'].get('desugaredQualType', n['computeLHSType']['qualType'])
        return f"({lhs} = ({self.ctype(n['type'])})((({self.ctype_s(lt)})({lhs})) {op} ({rhs})))"
    def e_UnaryOperator(self, n):
        s = self.sub(n)
        return f"({s}{n['opcode']})" if n.get('isPostfix') else f"({n['opcode']}{s})"
    def e_ConditionalOperator(self, n): return f"({self.sub(n,0)} ? {self.sub(n,1)} : {self.sub(n,2)})"
    def e_ArraySubscriptExpr(self, n): return f"{self.sub(n,0)}[{self.sub(n,1)}]"
    def e_UnaryExprOrTypeTraitExpr(self, n):
        if n['name'] != 'sizeof': raise Unsupported(n['name'])
        if 'argType' in n: return f"sizeof({self.ctype(n['argType'])})"
        return f"sizeof({self.sub(n)})"
    def e_CallExpr(self, n):
        callee = self.sub(n, 0); args = [self.e(a) for a in n['inner'][1:]]
        return f"{callee}({', '.join(args)})"
    def e_CXXMemberCallExpr(self, n):
        me = n['inner'][0]
        if me['kind'] != 'MemberExpr': raise Unsupported('member call via ' + me['kind'])
        d = self.tu.byid.get(me['referencedMemberDecl'])
        if not d: raise Unsupported('call to unknown member ' + me.get('name', '?'))
        obj = self.e(me['inner'][0]); 
        if not me['isArrow']: obj = '&' + obj
        args = [obj] + [self.e(a) for a in n['inner'][1:]]
        return f"{fname(d[0], self.tu)}({', '.join(args)})"
    # ---------- statements
    def s(self, n, ind):
        k = n['kind']; p = '    ' * ind
        if k == 'CompoundStmt': return p + '{\n' + ''.join(self.s(c, ind + 1) for c in n.get('inner', [])) + p + '}\n'
        if k == 'ReturnStmt': return p + 'return' + (' ' + self.sub(n) if n.get('inner') else '') + ';\n'
        if k == 'IfStmt':
            inner = n['inner']; out = p + f"if ({self.e(inner[0])})\n" + self.s(inner[1], ind + (0 if inner[1]['kind']=='CompoundStmt' else 1))
            if len(inner) > 2: out += p + 'else\n' + self.s(inner[2], ind + (0 if inner[2]['kind']=='CompoundStmt' else 1))
            return out
        if k == 'DeclStmt':
            out = ''
            for v in n['inner']:
                if v['kind'] != 'VarDecl': raise Unsupported('decl ' + v['kind'])
                init = [c for c in v.get('inner', []) if 'Attr' not in c['kind']]
                if init and init[0]['kind'] == 'InitListExpr': init = init[0].get('inner', [])
                out += p + self.ctype(v['type'], v['name']) + (' = ' + self.e(init[0]) if init else '') + ';\n'
            return out
        if k == 'SwitchStmt':
            inner = n['inner']; return p + f"switch ({self.e(inner[0])})\n" + self.s(inner[1], ind)
        if k == 'CaseStmt':
            inner = n['inner']; return p + f"case {self.e(inner[0])}:\n" + self.s(inner[1], ind + 1)
        if k == 'DefaultStmt': return p + 'default:\n' + self.s(n['inner'][0], ind + 1)
        if k == 'BreakStmt': return p + 'break;\n'
        return p + self.e(n) + ';\n'

def fname(node, tu):
    scope = node.get('_scope')
    if scope is None:
        d = tu.byid.get(node['id']); scope = d[1] if d else []
    base = cname('::'.join(scope + [node['name']]))
    t = node['type']['qualType']
    params = t[t.index('(')+1:t.rindex(')')]
    # disambiguate overloads by parameter types
    if node['name'] in ('swapEndian',) or node.get('kind') == 'CXXConstructorDecl':
        base += '__' + re.sub(r'[^A-Za-z0-9]+', '_', params).strip('_')
    if node.get('kind') == 'FunctionDecl' and any(x.get('kind') == 'TemplateArgument' for x in node.get('inner', [])):
        base += '__' + re.sub(r'[^A-Za-z0-9]+', '_', node['type']['qualType']).strip('_')
    return base

def emit_record(q, n, em):
    packed = any(c['kind'] == 'MaxFieldAlignmentAttr' for c in n.get('inner', []))
    out = f"struct {'__attribute__((packed)) ' if packed else ''}{cname(q)} {{\n"
    nf = 0
    for c in n.get('inner', []):
        if c['kind'] == 'FieldDecl':
            nf += 1
            if c.get('isImplicit'):   # anonymous union member
                uq = [r for r in em.tu.records if em.tu.records[r]['id'] == c['type'].get('typeAliasDeclId')] 
                # find anon record by type string
                ty = c['type']['qualType']
                cand = [r for r, rn in em.tu.records.items() if rn.get('tagUsed') == 'union' and r.startswith(q + '::')]
                if len(cand) != 1: raise Unsupported('anon union lookup')
                un = em.tu.records[cand[0]]
                out += '    union {\n' + ''.join('        ' + em.ctype(f['type'], f['name']) + ';\n' for f in un['inner'] if f['kind'] == 'FieldDecl') + '    };\n'
            else:
                out += '    ' + em.ctype(c['type'], c['name']) + ';\n'
    if nf == 0: out += '    char __empty;\n'
    return out + '};\n'

def main():
    tu = TU()
    for p in sys.argv[1:]:
        for d in load_docs(p): tu.index(d, [])
    em = Emitter(tu)
    print('#include <stdint.h>\n#include <stddef.h>\n#include <string.h>\n')
    for q, n in tu.enums.items():
        ut = n.get('fixedUnderlyingType', {}).get('desugaredQualType', 'int')
        print(f"typedef {BUILTIN.get(ut, ut)} {cname(q)};")
    # order records: nested ones first (dependency by appearance): emit those without record-typed fields first
    done = set(); ok_records = []
    def dep_ready(n):
        for c in n.get('inner', []):
            if c['kind'] == 'FieldDecl' and not c.get('isImplicit'):
                t = c['type'].get('desugaredQualType', c['type']['qualType'])
                if t in tu.records and t not in done: return False
            if c['kind'] == 'CXXRecordDecl' and c.get('tagUsed') == 'union':
                for f in c.get('inner', []):
                    if f['kind'] == 'FieldDecl':
                        t = f['type'].get('desugaredQualType', f['type']['qualType'])
                        if t in tu.records and t not in done: return False
        return True
    pending = {q: n for q, n in tu.records.items() if n.get('tagUsed') != 'union'}
    progress = True
    while pending and progress:
        progress = False
        for q in list(pending):
            if dep_ready(pending[q]):
                try: print(emit_record(q, pending[q], em)); ok_records.append(q)
                except Unsupported as e: print(f"/* record {q} skipped: {e} */")
                done.add(q); del pending[q]; progress = True
    seen = set(); protos = []; bodies = []; skipped = collections.Counter()
    for fn in tu.funcs:
        key = fn.get('mangledName', fn['id'])
        if key in seen: continue
        seen.add(key)
        loc = fn.get('loc', {}); 
        try:
            name = fname(fn, tu)
            t = fn['type']['qualType']; ret = t[:t.index('(')].strip()
            params = []
            parent = None
            if fn['kind'] in ('CXXMethodDecl',) and fn.get('storageClass') != 'static':
                pq = '::'.join(fn['_scope']); const = 'const ' if t.rstrip().endswith('const') else ''
                params.append(f"{const}struct {cname(pq)} *this")
            if fn['kind'] == 'CXXConstructorDecl': raise Unsupported('ctor')
            for c in fn.get('inner', []):
                if c['kind'] == 'ParmVarDecl': params.append(em.ctype(c['type'], c.get('name', '_unused')))
            body = [c for c in fn['inner'] if c['kind'] == 'CompoundStmt'][0]
            if 'typename' in ret or 'type-parameter' in ret:
                def find_ret(x):
                    if x.get('kind') == 'ReturnStmt' and x.get('inner'): return x['inner'][0]['type']
                    for c in x.get('inner', []):
                        r = find_ret(c)
                        if r: return r
                rt = find_ret(body); ret = rt.get('desugaredQualType', rt['qualType'])
            sig = f"{em.ctype_s(ret)} {name}({', '.join(params) or 'void'})"
            b = em.s(body, 0)
            protos.append(sig + ';'); bodies.append(f"/* {'::'.join(fn['_scope']+[fn['name']])} : {t} */\n{sig}\n{b}")
        except Unsupported as e:
            skipped[str(e)] += 1
            bodies.append(f"/* SKIPPED {'::'.join(fn.get('_scope', []) + [fn['name']])}: {e} */")
    print('\n'.join(protos)); print()
    print('\n'.join(bodies))
    sys.stderr.write(f"functions: {len(protos)} translated, {sum(skipped.values())} skipped\n")
    for k, v in skipped.most_common(): sys.stderr.write(f"   {v} x {k}\n")
main()
