#include <stdint.h>
#include <stddef.h>
#include <stdbool.h>
/* element: what matters in layer A is the key (device id of the stored packet) and an opaque content token */
struct Packet { uint16_t deviceId; uint32_t ptype; uint64_t token; };
struct DeviceStatus { uint64_t interfaces_token; struct Packet devicePacket; };
struct vec_DS { struct DeviceStatus *d; size_t n; };
struct Status { struct vec_DS devices; };
#define MAXN 100000
#define KEY(s,i) ((s)->devices.d[i].devicePacket.deviceId)
size_t g_i, g_j, g_m, g_found;     /* ghost indices, ghost witness */
#define INV(s,a,b) (((a) < (s)->devices.n && (b) < (s)->devices.n && (a) != (b)) ==> KEY(s,a) != KEY(s,b))

/* generated from std::find_if + the translated lambda of Status::getIndexByDeviceId */
size_t Status_getIndexByDeviceId(const struct Status *this, const uint16_t deviceId)
__CPROVER_requires(__CPROVER_is_fresh(this, sizeof *this) && this->devices.n <= MAXN && __CPROVER_is_fresh(this->devices.d, this->devices.n * sizeof(struct DeviceStatus)))
__CPROVER_assigns()
__CPROVER_ensures(__CPROVER_return_value <= this->devices.n)
__CPROVER_ensures(__CPROVER_return_value < this->devices.n ==> KEY(this, __CPROVER_return_value) == deviceId)
__CPROVER_ensures(g_i < __CPROVER_return_value ==> KEY(this, g_i) != deviceId)          /* first match / none */
{
    size_t i = 0;
    for (; i < this->devices.n; ++i)
    __CPROVER_assigns(i)
    __CPROVER_loop_invariant(i <= this->devices.n && (g_i < i ==> KEY(this, g_i) != deviceId))
    __CPROVER_decreases(this->devices.n - i)
    {
        if (this->devices.d[i].devicePacket.deviceId == deviceId) break;   /* lambda body */
    }
    return i;
}
void hf(void){ const struct Status *s; uint16_t k; Status_getIndexByDeviceId(s,k); __CPROVER_assert(0,"CANARY"); }

/* replaced in removeDeviceById: public contract without memory shape */
size_t Status_getIndexByDeviceId_pub(const struct Status *this, const uint16_t deviceId)
__CPROVER_requires(__CPROVER_r_ok(this, sizeof *this))
__CPROVER_assigns()
__CPROVER_ensures(__CPROVER_return_value <= this->devices.n)
__CPROVER_ensures(__CPROVER_return_value < this->devices.n ==> KEY(this, __CPROVER_return_value) == deviceId)
__CPROVER_ensures(g_i < __CPROVER_return_value ==> KEY(this, g_i) != deviceId)
__CPROVER_ensures(g_j < __CPROVER_return_value ==> KEY(this, g_j) != deviceId);
void swap_DS(struct DeviceStatus *a, struct DeviceStatus *b) { struct DeviceStatus t = *a; *a = *b; *b = t; }   /* std::swap model: exchange */
void vec_DS_pop_back(struct vec_DS *v) __CPROVER_requires(__CPROVER_rw_ok(v, sizeof *v) && v->n > 0) __CPROVER_ensures(v->n == __CPROVER_old(v->n) - 1 && v->d == __CPROVER_old(v->d)) __CPROVER_assigns(v->n);

void Status_removeDeviceById(struct Status *this, uint16_t deviceId)
__CPROVER_requires(__CPROVER_is_fresh(this, sizeof *this) && this->devices.n <= MAXN && __CPROVER_is_fresh(this->devices.d, this->devices.n * sizeof(struct DeviceStatus)))
/* Inv_S at the ghost pair: stored device ids pairwise distinct */
__CPROVER_requires(INV(this, g_i, g_j) && INV(this, g_i, this->devices.n - 1) && INV(this, g_j, this->devices.n - 1) && INV(this, g_m, g_i) && INV(this, g_m, g_j) && INV(this, g_m, this->devices.n - 1))
__CPROVER_assigns(this->devices.n, g_found, __CPROVER_object_whole(this->devices.d))
/* C16: count drops by one iff the id was present; the id is gone; Inv_S preserved; every other id is still stored */
__CPROVER_ensures(this->devices.n == __CPROVER_old(this->devices.n) || this->devices.n + 1 == __CPROVER_old(this->devices.n))
__CPROVER_ensures(g_m == g_found ==> (g_i < this->devices.n ==> (KEY(this, g_i) != deviceId || this->devices.n == __CPROVER_old(this->devices.n))))
__CPROVER_ensures(g_m == g_found ==> INV(this, g_i, g_j))
{
    size_t index = Status_getIndexByDeviceId_pub(this, deviceId);
    /*@ghost after-call getIndexByDeviceId#0 */ g_found = index;
    if (index != this->devices.n)
    {
        swap_DS(&this->devices.d[index], &this->devices.d[this->devices.n - 1]);
        vec_DS_pop_back(&this->devices);
    }
}
size_t nondet_size_t(void);
void hr(void){ struct Status *s; uint16_t k; g_i = nondet_size_t(); g_j = nondet_size_t(); g_m = nondet_size_t(); Status_removeDeviceById(s,k); __CPROVER_assert(0,"CANARY"); }
