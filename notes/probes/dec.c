#include <stdint.h>
#include <stddef.h>
#include <stdbool.h>
#pragma pack(push, 1)
struct CmpHeader { uint8_t version; uint8_t reserved; uint16_t deviceId; uint8_t messageType; uint8_t streamId; uint16_t sequenceCounter; };
#pragma pack(pop)
#define BE16(p) ((uint16_t)((((const uint8_t*)(p))[0] << 8) | ((const uint8_t*)(p))[1]))
struct vec_u8 { uint8_t *d; size_t n; };
struct Packet { uint8_t version; uint16_t deviceId; uint8_t streamId; uint16_t plen; uint8_t mtype; const uint8_t *g_src; bool g_reassembled; };
struct OutVec { size_t count; };
struct SegmentedPacket { struct vec_u8 payload; uint8_t segmentType; uint8_t curVersion; uint8_t curMessageType; uint16_t curSegment; };

/* ---- ghost ---- */
const uint8_t *g_frame; size_t g_size; size_t g_next_off;
/* single-slot abstraction of segmentedPackets for the frame's endpoint */
struct SegmentedPacket G_value; bool G_present;
/* entry snapshot of the slot (scalars) */
bool g0_present; uint8_t g0_seg, g0_ver, g0_mt; uint16_t g0_seq; size_t g0_len;
size_t g_delivered_reassembled;

#define KEY_OK(dev, stream) ((dev) == BE16(g_frame + 2) && (stream) == g_frame[5])
#define SEG(p) ((p)[12] & 0x0C)

static uint16_t swap16(uint16_t v){ return (uint16_t)(((v & 0xFF00) >> 8) | ((v & 0x00FF) << 8)); }
static uint16_t CmpHeader_getDeviceId(const struct CmpHeader *this){ return swap16(this->deviceId); }
static uint8_t CmpHeader_getStreamId(const struct CmpHeader *this){ return this->streamId; }
static uint8_t CmpHeader_getVersion(const struct CmpHeader *this){ return this->version; }
static uint8_t CmpHeader_getMessageType(const struct CmpHeader *this){ return this->messageType; }
static uint16_t CmpHeader_getSequenceCounter(const struct CmpHeader *this){ return swap16(this->sequenceCounter); }
static void Packet_setVersion(struct Packet *this, uint8_t v){ this->version = v; }
static void Packet_setDeviceId(struct Packet *this, uint16_t v){ this->deviceId = v; }
static void Packet_setStreamId(struct Packet *this, uint8_t v){ this->streamId = v; }
static uint16_t Packet_getPayloadLength(const struct Packet *this){ return this->plen; }
static bool SegmentedPacket_isAssembled(const struct SegmentedPacket *this){ return this->segmentType == 12; }

bool Packet_isValidPacket(const uint8_t *data, const size_t size)
__CPROVER_requires(size > 0 && __CPROVER_r_ok(data, size))
__CPROVER_ensures(__CPROVER_return_value == (size >= 16 && BE16(data + 14) <= size - 16 && (data[12] & 0x40) == 0 && data[13] != 0))
__CPROVER_assigns();
bool Decoder_isSegmentedPacket(const uint8_t *data, const size_t size)
__CPROVER_requires(size >= 16 && __CPROVER_r_ok(data, 16)) __CPROVER_ensures(__CPROVER_return_value == (SEG(data) != 0)) __CPROVER_assigns();
bool Decoder_isFirstSegment(const uint8_t *data, const size_t size)
__CPROVER_requires(size >= 16 && __CPROVER_r_ok(data, 16)) __CPROVER_ensures(__CPROVER_return_value == (SEG(data) == 4)) __CPROVER_assigns();

void map_erase(uint16_t dev, uint8_t stream)
__CPROVER_requires(KEY_OK(dev, stream))                                   /* C18 */
__CPROVER_ensures(!G_present) __CPROVER_assigns(G_present);
struct SegmentedPacket *map_index(uint16_t dev, uint8_t stream)           /* operator[] */
__CPROVER_requires(KEY_OK(dev, stream))                                   /* C18 */
__CPROVER_ensures(__CPROVER_return_value == &G_value && G_present)
__CPROVER_ensures(__CPROVER_old(G_present) ? (G_value.segmentType == __CPROVER_old(G_value.segmentType) && G_value.curVersion == __CPROVER_old(G_value.curVersion) && G_value.curMessageType == __CPROVER_old(G_value.curMessageType) && G_value.curSegment == __CPROVER_old(G_value.curSegment) && G_value.payload.n == __CPROVER_old(G_value.payload.n))
                                           : (G_value.segmentType == 0 && G_value.curVersion == 0 && G_value.curMessageType == 0 && G_value.curSegment == 0 && G_value.payload.n == 0))
__CPROVER_assigns(G_present, G_value);
void map_assign_move(uint16_t dev, uint8_t stream, const struct SegmentedPacket *src)   /* operator[](k) = std::move(src) */
__CPROVER_requires(KEY_OK(dev, stream) && __CPROVER_r_ok(src, sizeof *src))
__CPROVER_ensures(G_present && G_value.segmentType == src->segmentType && G_value.curVersion == src->curVersion && G_value.curMessageType == src->curMessageType && G_value.curSegment == src->curSegment && G_value.payload.n == src->payload.n)
__CPROVER_assigns(G_present, G_value);

/* public parts of the SegmentedPacket contracts (private memory-shape parts live in their own harnesses) */
void SegmentedPacket_ctor(struct SegmentedPacket *this, const uint8_t *data, const size_t size, uint8_t version, uint8_t messageType, uint16_t sequenceCounter)
__CPROVER_requires(__CPROVER_rw_ok(this, sizeof *this) && size >= 16 && __CPROVER_r_ok(data, size) && BE16(data + 14) <= size - 16)
__CPROVER_ensures(this->segmentType == 4 && this->curVersion == version && this->curMessageType == messageType && this->curSegment == sequenceCounter)
__CPROVER_ensures(this->payload.n == 16 + (size_t)BE16(data + 14))      /* C05: declared bytes only */
__CPROVER_assigns(*this);
bool SegmentedPacket_addSegment(struct SegmentedPacket *this, const uint8_t *data, const size_t size, const uint8_t version, const uint8_t messageType, const uint16_t sequenceCounter)
__CPROVER_requires(__CPROVER_rw_ok(this, sizeof *this) && size >= 16 && __CPROVER_r_ok(data, size) && BE16(data + 14) <= size - 16 && version != 0)
__CPROVER_requires(this->payload.n <= 200000)
__CPROVER_ensures(__CPROVER_return_value == (version == __CPROVER_old(this->curVersion) && messageType == __CPROVER_old(this->curMessageType) && sequenceCounter == (uint16_t)(__CPROVER_old(this->curSegment) + 1)
                  && (__CPROVER_old(this->segmentType) == 4 || __CPROVER_old(this->segmentType) == 8) && (SEG(data) == 8 || SEG(data) == 12)))
__CPROVER_ensures(__CPROVER_return_value ==> (this->payload.n == __CPROVER_old(this->payload.n) + BE16(data + 14) && this->curSegment == sequenceCounter && this->segmentType == SEG(data) && this->curVersion == version && this->curMessageType == messageType))
__CPROVER_assigns(*this);
struct Packet *SegmentedPacket_getPacket(struct SegmentedPacket *this)
__CPROVER_requires(__CPROVER_rw_ok(this, sizeof *this) && this->payload.n >= 16)
__CPROVER_ensures(__CPROVER_is_fresh(__CPROVER_return_value, sizeof(struct Packet)) && __CPROVER_return_value->g_reassembled && __CPROVER_return_value->version == this->curVersion && __CPROVER_return_value->mtype == this->curMessageType)
__CPROVER_assigns();
struct Packet *make_shared_Packet(uint8_t msgType, const uint8_t *data, size_t size)
__CPROVER_requires(size >= 16 && __CPROVER_r_ok(data, size) && BE16(data + 14) <= size - 16)
__CPROVER_ensures(__CPROVER_is_fresh(__CPROVER_return_value, sizeof(struct Packet)))
__CPROVER_ensures(__CPROVER_return_value->plen == BE16(data + 14) && __CPROVER_return_value->mtype == msgType && __CPROVER_return_value->g_src == data && !__CPROVER_return_value->g_reassembled)
__CPROVER_assigns();

void out_push_back(struct OutVec *v, struct Packet *p)
__CPROVER_requires(__CPROVER_rw_ok(v, sizeof *v) && __CPROVER_r_ok(p, sizeof *p) && v->count < 100000)
__CPROVER_requires(p->deviceId == BE16(g_frame + 2) && p->streamId == g_frame[5])
__CPROVER_requires(!p->g_reassembled ==> (__CPROVER_same_object(p->g_src, g_frame) && __CPROVER_POINTER_OFFSET(p->g_src) == g_next_off && g_next_off + 16 + p->plen <= g_size && p->version == g_frame[0] && p->mtype == g_frame[4]))
/* C05: a reassembled message is delivered only when the last segment was accepted, with the first segment's version/type */
__CPROVER_requires(p->g_reassembled ==> (G_present && G_value.segmentType == 12 && p->version == G_value.curVersion && p->mtype == G_value.curMessageType))
__CPROVER_ensures(v->count == __CPROVER_old(v->count) + 1)
__CPROVER_ensures(!__CPROVER_old(p->g_reassembled) ? (g_next_off == __CPROVER_old(g_next_off) + 16 + __CPROVER_old(p->plen) && g_delivered_reassembled == __CPROVER_old(g_delivered_reassembled)) : (g_next_off == __CPROVER_old(g_next_off) && g_delivered_reassembled == __CPROVER_old(g_delivered_reassembled) + 1))
__CPROVER_assigns(v->count, g_next_off, g_delivered_reassembled);

/* spec of the transition for the message at the cursor when it is a segment (written from the property text) */
#define ACCEPT(ver, mt, seq, p) (g0_present && (ver) == g0_ver && (mt) == g0_mt && (seq) == (uint16_t)(g0_seq + 1) && (g0_seg == 4 || g0_seg == 8) && (SEG(p) == 8 || SEG(p) == 12))

void Decoder_decode(struct OutVec *packets, const void *data, const size_t size)
__CPROVER_requires(__CPROVER_is_fresh(packets, sizeof *packets) && packets->count == 0)
__CPROVER_requires(size >= 8 && size <= 70000 && __CPROVER_is_fresh(data, size))
__CPROVER_requires(g_delivered_reassembled == 0)
/* arbitrary history: any slot state satisfying the reassembly invariant */
__CPROVER_requires(G_present ==> ((G_value.segmentType == 4 || G_value.segmentType == 8) && G_value.payload.n >= 16 && G_value.payload.n <= 100000 && G_value.curVersion != 0))
__CPROVER_requires(g0_present == G_present && g0_seg == G_value.segmentType && g0_ver == G_value.curVersion && g0_mt == G_value.curMessageType && g0_seq == G_value.curSegment && g0_len == G_value.payload.n)
__CPROVER_ensures(packets->count * 16 + 8 <= size + 16 * g_delivered_reassembled && g_delivered_reassembled <= 1)
/* C17/C05/C06: slot invariant re-established: present => open (first/intermediary) */
__CPROVER_ensures(G_present ==> ((G_value.segmentType == 4 || G_value.segmentType == 8) && G_value.payload.n >= 16 && G_value.curVersion != 0))
/* C17/C18: a frame that is not capture-module traffic touches nothing */
__CPROVER_ensures(((const uint8_t*)data)[0] == 0 ==> (G_present == g0_present && packets->count == 0))
/* C05/C06: first message of the frame is a continuing segment: delivered iff accepted and last; slot closed unless accepted intermediary */
__CPROVER_ensures((((const uint8_t*)data)[0] != 0 && size >= 24 && BE16((const uint8_t*)data + 22) <= size - 24 && (((const uint8_t*)data)[20] & 0x40) == 0 && ((const uint8_t*)data)[21] != 0 && (SEG((const uint8_t*)data + 8) == 8 || SEG((const uint8_t*)data + 8) == 12))
   ==> ( (g_delivered_reassembled == 1) == (ACCEPT(((const uint8_t*)data)[0], ((const uint8_t*)data)[4], BE16((const uint8_t*)data + 6), (const uint8_t*)data + 8) && SEG((const uint8_t*)data + 8) == 12)
      && G_present == (ACCEPT(((const uint8_t*)data)[0], ((const uint8_t*)data)[4], BE16((const uint8_t*)data + 6), (const uint8_t*)data + 8) && SEG((const uint8_t*)data + 8) == 8)
      && (G_present ==> (G_value.payload.n == g0_len + BE16((const uint8_t*)data + 22) && G_value.curSegment == BE16((const uint8_t*)data + 6))) ))
/* C06 recovery: a first segment as first message always (re)opens, whatever the slot held */
__CPROVER_ensures((((const uint8_t*)data)[0] != 0 && size >= 24 && BE16((const uint8_t*)data + 22) <= size - 24 && (((const uint8_t*)data)[20] & 0x40) == 0 && ((const uint8_t*)data)[21] != 0 && SEG((const uint8_t*)data + 8) == 4)
   ==> (G_present && G_value.segmentType == 4 && G_value.curSegment == BE16((const uint8_t*)data + 6) && G_value.curVersion == ((const uint8_t*)data)[0] && G_value.payload.n == 16 + (size_t)BE16((const uint8_t*)data + 22) && packets->count == 0))
__CPROVER_assigns(packets->count, G_present, G_value, g_next_off, g_frame, g_size, g_delivered_reassembled)
{
    /*@ghost function-entry */ g_frame = (const uint8_t*)data; g_size = size; g_next_off = 8;
    if (data == NULL) return;
    if (size < sizeof(struct CmpHeader)) return;
    const uint8_t *dataPtr = (const uint8_t *)data;
    if (*dataPtr == 0x00) return; /* TECMP elided in probe */
    const struct CmpHeader *header = (const struct CmpHeader *)data;
    const uint16_t deviceId = CmpHeader_getDeviceId(header);
    const uint8_t streamId = CmpHeader_getStreamId(header);
    const uint8_t *packetPtr = (const uint8_t *)(header + 1);
    int curSize = (int)(size - sizeof(struct CmpHeader));
    struct Packet *packet = NULL;
    while (curSize > 0)
    __CPROVER_assigns(packetPtr, curSize, packet, packets->count, G_present, G_value, g_next_off, g_delivered_reassembled)
    __CPROVER_loop_invariant(__CPROVER_same_object(packetPtr, data) && packets->count <= size)
    __CPROVER_loop_invariant(curSize <= (int)(size - 8) && g_next_off <= size && g_next_off >= 8)
    __CPROVER_loop_invariant(curSize > 0 ==> (__CPROVER_POINTER_OFFSET(packetPtr) == g_next_off && g_next_off + (size_t)curSize == size))
    __CPROVER_loop_invariant(packets->count * 16 + 8 <= g_next_off && g_delivered_reassembled == 0)
    /* slot: untouched before the first message, closed after any unsegmented message */
    __CPROVER_loop_invariant(g_next_off == 8 ? (G_present == g0_present && G_value.segmentType == g0_seg && G_value.curVersion == g0_ver && G_value.curMessageType == g0_mt && G_value.curSegment == g0_seq && G_value.payload.n == g0_len && packets->count == 0) : !G_present)
    __CPROVER_decreases(curSize)
    {
        if (!Packet_isValidPacket(packetPtr, (size_t)curSize)) { map_erase(deviceId, streamId); break; }
        if (!Decoder_isSegmentedPacket(packetPtr, (size_t)curSize))
        {
            map_erase(deviceId, streamId);
            packet = make_shared_Packet(CmpHeader_getMessageType(header), packetPtr, (size_t)curSize);
            Packet_setVersion(packet, CmpHeader_getVersion(header));
            Packet_setDeviceId(packet, deviceId);
            Packet_setStreamId(packet, streamId);
            out_push_back(packets, packet);
        }
        else
        {
            if (Decoder_isFirstSegment(packetPtr, (size_t)curSize))
            {
                struct SegmentedPacket segmentedPacket;
                SegmentedPacket_ctor(&segmentedPacket, packetPtr, (size_t)curSize, CmpHeader_getVersion(header), CmpHeader_getMessageType(header), CmpHeader_getSequenceCounter(header));
                map_assign_move(deviceId, streamId, &segmentedPacket);
            }
            else
            {
                if (!SegmentedPacket_addSegment(map_index(deviceId, streamId), packetPtr, (size_t)curSize, CmpHeader_getVersion(header), CmpHeader_getMessageType(header), CmpHeader_getSequenceCounter(header)))
                {
                    map_erase(deviceId, streamId);
                }
                else if (SegmentedPacket_isAssembled(map_index(deviceId, streamId)))
                {
                    packet = SegmentedPacket_getPacket(map_index(deviceId, streamId));
                    Packet_setDeviceId(packet, deviceId);
                    Packet_setStreamId(packet, streamId);
                    out_push_back(packets, packet);
                    map_erase(deviceId, streamId);
                }
            }
            break;
        }
        const size_t packetSize = (size_t)Packet_getPayloadLength(packet) + 16;
        packetPtr += packetSize;
        curSize -= (int)packetSize;
    }
}
bool nondet_bool(void);
void h_decode(void){ struct OutVec *o; const void *d; size_t s; Decoder_decode(o,d,s); __CPROVER_assert(0, "CANARY"); }
