#include <stdint.h>
#include <stddef.h>
#include <stdbool.h>
struct vec_u8 { uint8_t *d; size_t n; };
struct sv { const char *p; size_t n; };
struct CaptureModulePayload { struct vec_u8 payloadData; uint32_t type; };
#define BE16(p) ((uint16_t)((((const uint8_t*)(p))[0] << 8) | ((const uint8_t*)(p))[1]))
/* spec: offset after k length-prefixed fields starting at 28, or SIZE_MAX if one does not fit (written from the layout, loop-free) */
static size_t spec_step(const uint8_t *d, size_t n, size_t off) { if (off == SIZE_MAX || n - off < 2) return SIZE_MAX; size_t l = BE16(d + off); if (n - off - 2 < l) return SIZE_MAX; return off + 2 + l; }
static bool Valid_CM(const uint8_t *d, size_t n) { if (n < 28) return false; size_t o = 28; o = spec_step(d,n,o); o = spec_step(d,n,o); o = spec_step(d,n,o); o = spec_step(d,n,o); o = spec_step(d,n,o); return o != SIZE_MAX; }
static uint16_t swap16(uint16_t v){ return (uint16_t)(((v & 0xFF00) >> 8) | ((v & 0x00FF) << 8)); }
/* translated real code */
static const uint8_t *CaptureModulePayload_initStringView(const uint8_t *ptr, struct sv *str)
{
    uint16_t length = swap16(*(const uint16_t *)ptr);
    ptr += sizeof(uint16_t);
    str->p = (const char *)ptr; str->n = length;
    ptr += length;
    return ptr;
}
const uint8_t *CaptureModulePayload_getVendorData(const struct CaptureModulePayload *this, struct sv *out)
__CPROVER_requires(__CPROVER_is_fresh(this, sizeof *this) && __CPROVER_is_fresh(out, sizeof *out))
__CPROVER_requires(this->payloadData.n <= 65535 && __CPROVER_is_fresh(this->payloadData.d, this->payloadData.n))
__CPROVER_requires(Valid_CM(this->payloadData.d, this->payloadData.n))
__CPROVER_assigns(*out)
/* C03: the reported view lies inside the payload's own bytes */
__CPROVER_ensures(__CPROVER_same_object(__CPROVER_return_value, this->payloadData.d))
__CPROVER_ensures(__CPROVER_POINTER_OFFSET(__CPROVER_return_value) + out->n <= this->payloadData.n)
{
    struct sv vendorData;
    const uint8_t *ptr = CaptureModulePayload_initStringView(this->payloadData.d + 28, &vendorData);
    ptr = CaptureModulePayload_initStringView(ptr, &vendorData);
    ptr = CaptureModulePayload_initStringView(ptr, &vendorData);
    ptr = CaptureModulePayload_initStringView(ptr, &vendorData);
    CaptureModulePayload_initStringView(ptr, &vendorData);
    *out = vendorData;
    return (const uint8_t *)vendorData.p;
}
void h(void){ const struct CaptureModulePayload *c; struct sv *o; CaptureModulePayload_getVendorData(c,o); __CPROVER_assert(0,"CANARY"); }
