/* Specification vocabulary: validity predicates of the payload kinds (DESIGN.md §4.2).
 * Written from the protocol layouts over RAW BYTES (d = first payload byte, n = payload length);
 * the library's own accessors never appear.  Loop-free. */
#ifndef VERIF_VOCAB_H
#define VERIF_VOCAB_H

/* ---- message level: n >= 16, declared length fits, no error-in-payload flag, payload type != 0 */
#define VALID_MSG(b, n)   ((n) >= 16 && (size_t)BE16(b, 14) <= (n) - 16 && (B(b, 12) & 0x40) == 0 && B(b, 13) != 0)

/* ---- CAN / CAN-FD (header 16) */
#define VALID_CAN(d, n)     ((n) >= 16 && (size_t)B(d, 15) <= (n) - 16)
#define ERR_CAN_MUST(d)     ((BE16(d, 0) & 0x03FF) != 0)                      /* flag bits 0..9: bus errors */
#define ERR_CAN_MAY(d)      (ERR_CAN_MUST(d) || BE16(d, 12) != 0)              /* library additionally rejects error position != 0 */
/* ---- LIN (header 8) */
#define VALID_LIN(d, n)     ((n) >= 8 && (size_t)B(d, 7) <= (n) - 8)
/* ---- Ethernet (header 6) */
#define VALID_ETH(d, n)     ((n) >= 6 && (size_t)BE16(d, 4) <= (n) - 6)
#define ERR_ETH_MUST(d)     ((BE16(d, 0) & 0x0031) != 0)                      /* fcs_err, frame too long, phy_err */
#define ERR_ETH_MAY(d)      ((BE16(d, 0) & 0x003B) != 0)                      /* + short frame, collision (library rejects these too) */
/* ---- analog (header 16): sample datatype int16 (0) or int32 (1) */
#define VALID_ANALOG(d, n)  ((n) >= 16 && (BE16(d, 0) & 0x0003) <= 1)
#define ANALOG_WIDTH(d)     (((BE16(d, 0) & 0x0003) == 0) ? (size_t)2 : (size_t)4)

/* ---- capture-module status (header 26): five length-prefixed fields, each u16 length + bytes, chained */
static inline size_t cm_next(const uint8_t *d, size_t n, size_t o)
{   /* offset behind the length-prefixed field starting at o, or SIZE_MAX if it does not fit */
    if (o == (size_t)-1 || o > n || n - o < 2) return (size_t)-1;
    size_t len = BE16(d, o);
    if (len > n - o - 2) return (size_t)-1;
    return o + 2 + len;
}
#define CM_O1(d, n) cm_next(d, n, 26)
#define CM_O2(d, n) cm_next(d, n, CM_O1(d, n))
#define CM_O3(d, n) cm_next(d, n, CM_O2(d, n))
#define CM_O4(d, n) cm_next(d, n, CM_O3(d, n))
#define CM_O5(d, n) cm_next(d, n, CM_O4(d, n))
#define VALID_CM(d, n)      ((n) >= 26 && CM_O5(d, n) != (size_t)-1)

/* ---- interface status (header 36): u16 stream-id count, ids (+1 pad byte if odd), u16 vendor length, vendor data */
#define IF_CNT(d)           ((size_t)BE16(d, 36))
#define IF_VOFF(d)          (38 + IF_CNT(d) + (IF_CNT(d) & 1))               /* offset of the vendor-data length field */
#define VALID_IF(d, n)      ((n) >= 38 && IF_VOFF(d) <= (n) && (n) - IF_VOFF(d) >= 2 && (size_t)BE16(d, IF_VOFF(d)) <= (n) - IF_VOFF(d) - 2)
#define IF_STATUS_OK(d)     (B(d, 29) <= 2)

/* ---- reassembly: a continuing segment is accepted iff the slot is open (first/intermediary), version and message type match,
 *      the frame counter is the slot's counter + 1 modulo 2^16, the segment is intermediary or last and its declared bytes lie in the frame */
#define SEG_BITS(b)         (B(b, 12) & 0x0C)
#define SP_ACCEPT(st, ver, mt, seq, fver, fmt, fseq, b, n) \
    (((st) == 4 || (st) == 8) && (ver) == (fver) && (mt) == (fmt) && (fseq) == (uint16_t)((seq) + 1) && \
     (SEG_BITS(b) == 8 || SEG_BITS(b) == 12) && (size_t)BE16(b, 14) <= (n) - 16)

/* ---- payload kinds: T = (message type << 8) | payload type byte */
#define IS_TYPED(T)   ((T) == 0x0101 || (T) == 0x0102 || (T) == 0x0103 || (T) == 0x0107 || (T) == 0x0108 || (T) == 0x0301 || (T) == 0x0302)
/* a payload may be returned as typed kind T only if ...            (inner lengths fit, no bus-error flags that must invalidate) */
#define KIND_MUST_GEN(T, d, n) (((T) == 0x0101 || (T) == 0x0102) ? (VALID_CAN(d, n) && !ERR_CAN_MUST(d)) : (T) == 0x0103 ? VALID_LIN(d, n) : (T) == 0x0107 ? VALID_ANALOG(d, n) : \
                            (T) == 0x0108 ? (VALID_ETH(d, n) && !ERR_ETH_MUST(d)) : (T) == 0x0301 ? VALID_CM(d, n) : (T) == 0x0302 ? VALID_IF(d, n) : 1)
/* a payload must be returned as typed kind T if ...                (consistent and free of every error flag the library may reject) */
#define KIND_MAY_GEN(T, d, n)  (((T) == 0x0101 || (T) == 0x0102) ? (VALID_CAN(d, n) && !ERR_CAN_MAY(d)) : (T) == 0x0103 ? VALID_LIN(d, n) : (T) == 0x0107 ? VALID_ANALOG(d, n) : \
                            (T) == 0x0108 ? (VALID_ETH(d, n) && !ERR_ETH_MAY(d)) : (T) == 0x0301 ? VALID_CM(d, n) : (T) == 0x0302 ? (VALID_IF(d, n) && IF_STATUS_OK(d)) : 1)
/* proof by cases over the payload kind: a harness compiled with -DKIND_FIX=<T> (or -DKIND_UNTYPED) proves the contract for that kind only;
 * the seven typed kinds plus 'untyped' cover every value */
#if defined(KIND_FIX)
/* under the case assumption T == KIND_FIX the kind predicates are instantiated at the constant (folds to the one predicate of that kind) */
#define KIND_MUST(T, d, n) KIND_MUST_GEN((uint32_t)(KIND_FIX), d, n)
#define KIND_MAY(T, d, n)  KIND_MAY_GEN((uint32_t)(KIND_FIX), d, n)
#define KIND_SEL(T) ((T) == (KIND_FIX))
#elif defined(KIND_UNTYPED)
#define KIND_MUST(T, d, n) 1
#define KIND_MAY(T, d, n)  1
#define KIND_SEL(T) (!IS_TYPED(T))
#else
#define KIND_MUST(T, d, n) KIND_MUST_GEN(T, d, n)
#define KIND_MAY(T, d, n)  KIND_MAY_GEN(T, d, n)
#define KIND_SEL(T) 1
#endif
#define PTYPE(mt, b)        ((((uint32_t)(uint8_t)(mt)) << 8) | (uint32_t)B(b, 13))      /* payload kind of the message at b in a frame of message type mt */
#define FRAME_IS_CMP(d, n)  ((d) != 0 && (n) >= 8 && B(d, 0) != 0)

/* capture-module builder: length field of a string of n characters (counts the NUL, rounded up to even) and field offsets from the arguments */
#define STR_L(n)  (((size_t)(n) + 1) + (((size_t)(n) + 1) & 1))
#define CMB_O2    (28 + STR_L(deviceDescription.n))
#define CMB_O3    (CMB_O2 + 2 + STR_L(serialNumber.n))
#define CMB_O4    (CMB_O3 + 2 + STR_L(hardwareVersion.n))
#define CMB_O5    (CMB_O4 + 2 + STR_L(softwareVersion.n))

/* history of byte k of a byte vector (index 0 if k is outside the old contents; the clause using it guards k < old n) */
#define OLDB(PD, k)  __CPROVER_old((PD).d[(k) & -(size_t)((k) < (PD).n)])
/* capture-module builder: size of the intermediate buffer (header, five length fields, the strings, vendor data, up to 8 padding bytes) */
#define CMB_MAXSIZE (26 + 10 + deviceDescription.n + serialNumber.n + hardwareVersion.n + softwareVersion.n + vendorData->n + 8)

/* a payload / packet object with its own buffer (value semantics C14, status C16, TECMP C15) */
#define VAL_PAYLOAD(p)   (__CPROVER_is_fresh((p), sizeof(*(p))) && (p)->payloadData.n <= VEC_MAX && CEX_LIMIT((p)->payloadData.n) && __CPROVER_is_fresh((p)->payloadData.d, CEX_CAP((p)->payloadData.n)))
#define VAL_PACKET(p)    (__CPROVER_is_fresh((p), sizeof(*(p))) && ((p)->payload == 0 || VAL_PAYLOAD((p)->payload)))

/* ---- TECMP (C15).  Frame f: 28-byte header, payload p = f + 28, m = size - 28 payload bytes available ---- */
#define T_DEV(f)   B(f, 1)
#define T_MT(f)    B(f, 5)
#define T_DT(f)    BE16(f, 6)
#define T_IFID(f)  BE32(f, 12)
#define T_TS(f)    BE64(f, 16)
#define T_PLEN(f)  BE16(f, 24)
/* TECMP payload kinds (TECMP::PayloadType) */
#define TK_CM  0x0100u
#define TK_IF  0x0200u
#define TK_CAN 0x0302u
#define TK_LIN 0x0304u
/* the inner lengths of a payload of kind t lie inside its n bytes d: CAN 4 id + 1 dlc + dlc data; LIN 1 pid + 1 length + length data;
 * bus-status entry as the decoder builds it: 12 generic + 12 entry + 4 default bytes; capture-module status: generic part and the version bytes 13..17 */
#define TP_FITS(t, d, n) (((t) == TK_CAN && (n) >= 5 && (size_t)B(d, 4) <= (n) - 5) || ((t) == TK_LIN && (n) >= 2 && (size_t)B(d, 1) <= (n) - 2) || \
                          ((t) == TK_IF && (n) == 28) || ((t) == TK_CM && (n) >= 18))
/* a TECMP payload object as the decoder hands it to the converter */
#define TP_WELL(p) (VAL_PAYLOAD(p) && TP_FITS((p)->type.type, (p)->payloadData.d, (p)->payloadData.n))
/* converter input: the 28-byte TECMP header and a payload object handed over by the decoder */
#define CONV_IN(header, payload) (__CPROVER_is_fresh(header, 28) && __CPROVER_is_fresh(payload, sizeof(*payload)) && TP_WELL(*payload))
#define TD(payload) ((*(payload))->payloadData.d)          /* TECMP payload bytes */
#define TN(payload) ((*(payload))->payloadData.n)
/* converter output r: a new packet with a new payload object; device id, timestamp and interface id are the header's wire fields */
#define CONV_OUT(r)       (__CPROVER_is_fresh(r, sizeof(struct ASAM_CMP_Packet)) && __CPROVER_is_fresh((r)->payload, sizeof(struct ASAM_CMP_Payload)) && __CPROVER_is_fresh((r)->payload->payloadData.d, (r)->payload->payloadData.n))
#define CONV_HDR(r, h)    ((r)->deviceId == T_DEV(h) && (r)->timestamp == T_TS(h))
#define PD(r) ((r)->payload->payloadData.d)                /* ASAM payload bytes of the converted packet */
#define PN(r) ((r)->payload->payloadData.n)
/* the payload kind the decoder builds for a frame of message type mt / data type dt */
#define KIND_MATCH(t, mt, dt) (((mt) == 1 && (t) == TK_CM) || ((mt) == 2 && (t) == TK_IF) || ((mt) == 3 && ((dt) == 2 || (dt) == 3) && (t) == TK_CAN) || ((mt) == 3 && (dt) == 4 && (t) == TK_LIN))
#define T_SUPPORTED(mt, dt)   ((mt) == 1 || (mt) == 2 || ((mt) == 3 && ((dt) == 2 || (dt) == 3 || (dt) == 4)))
/* number of packets a TECMP frame f of `size` bytes yields: none unless the header is complete, declares a non-empty payload that fits and is one the
 * library treats as valid (message type != 0xFF; data-type bytes not FF 00); then by kind, with m = size - 28 payload bytes at p = f + 28 */
#define T_FRAME_OK(f, size) ((size) >= 28 && T_PLEN(f) != 0 && (size) >= 28 + (size_t)T_PLEN(f) && T_MT(f) != 0xFF && !(B(f, 6) == 0xFF && B(f, 7) == 0x00))
#define T_KIND_COUNT(mt, dt, p, m) ((mt) == 1 ? (TP_FITS(TK_CM, p, m) ? 1 : 0) : (mt) == 2 ? ((m) >= 24 ? ((m) - 12) / 12 : 0) : \
                                    ((mt) == 3 && ((dt) == 2 || (dt) == 3)) ? (TP_FITS(TK_CAN, p, m) ? 1 : 0) : ((mt) == 3 && (dt) == 4) ? (TP_FITS(TK_LIN, p, m) ? 1 : 0) : 0)
#define T_COUNT(f, size) (T_FRAME_OK(f, size) ? T_KIND_COUNT(T_MT(f), T_DT(f), (const uint8_t *)(f) + 28, (size) - 28) : 0)
/* element condition of std::vector<std::shared_ptr<TECMP::Payload>>: well formed, and of the kind of the frame being decoded (ghost g_mt / g_dt) */
/* (the push-side condition is stated with r_ok: the pushed object was allocated by a callee whose contract already introduced it as fresh) */
#define VEC_PUSH_REQ_vec_p_TECMP_Payload(x) (__CPROVER_r_ok((x), sizeof(*(x))) && (x)->payloadData.n <= VEC_MAX && __CPROVER_r_ok((x)->payloadData.d, (x)->payloadData.n) && \
                                             TP_FITS((x)->type.type, (x)->payloadData.d, (x)->payloadData.n) && KIND_MATCH((x)->type.type, g_mt, g_dt))
#define VEC_ELEM_OK_vec_p_TECMP_Payload(x)  (TP_WELL(x) && KIND_MATCH((x)->type.type, g_mt, g_dt))

/* ---- status tracker (C16): keys, element identity (shallow: a moved element is the same element), invariant instances */
#define PKT_SAME(a, b) ((a).payload == (b).payload && (a).version == (b).version && (a).deviceId == (b).deviceId && (a).streamId == (b).streamId && (a).sequenceCounter == (b).sequenceCounter && \
                        (a).timestamp == (b).timestamp && (a).interfaceId == (b).interfaceId && (a).vendorId == (b).vendorId && (a).commonFlags == (b).commonFlags && (a).segmentType == (b).segmentType)
#define VEC_ELEM_EQ_vec_ASAM_CMP_InterfaceStatus(a, b) ((a).interfaceId == (b).interfaceId && PKT_SAME((a).interfacePacket, (b).interfacePacket))
#define VEC_ELEM_EQ_vec_ASAM_CMP_DeviceStatus(a, b)    ((a).interfaces.d == (b).interfaces.d && (a).interfaces.n == (b).interfaces.n && PKT_SAME((a).devicePacket, (b).devicePacket))
#define VEC_ELEM_EQ_vec_p_ASAM_CMP_Packet(a, b)        ((a) == (b))
#define VEC_ELEM_EQ_vec_p_TECMP_Payload(a, b)          ((a) == (b))
#define DKEY(v, i)   ((v).d[i].devicePacket.deviceId)          /* key of a device entry: device id of the stored capture-module packet */
#define IKEY(v, i)   ((v).d[i].interfaceId)                    /* key of an interface entry */
#ifndef ST_MAX
#define ST_MAX 100000ul          /* element-count bound of the status vectors (device ids are 16 bit: at most 65536 distinct entries) */
#endif
#define INV_D(v, a, b) (((a) < (v).n && (b) < (v).n && (a) != (b)) ==> DKEY(v, a) != DKEY(v, b))       /* instance (a,b) of: stored device ids pairwise distinct */
#define INV_I(v, a, b) (((a) < (v).n && (b) < (v).n && (a) != (b)) ==> IKEY(v, a) != IKEY(v, b))
#define VEC_SHAPE(v)   ((v).n <= ST_MAX && ((v).n == 0 || __CPROVER_is_fresh((v).d, (v).n * sizeof(*(v).d))))       /* an empty vector may have no buffer at all */

/* a pointer/length view lies inside the payload buffer [d, d+n) */
#define VIEW_IN(p, len, d, n) ((len) == 0 || (__CPROVER_same_object((p), (d)) && __CPROVER_POINTER_OFFSET(p) >= 0 && (size_t)__CPROVER_POINTER_OFFSET(p) + (len) <= (n)))

/* payload object shape: the object and its byte buffer are separate fresh objects */
#define PAYLOAD_SHAPE(o, PD)  (__CPROVER_is_fresh((o), sizeof(*(o))) && (PD).n <= VEC_MAX && CEX_LIMIT((PD).n) && __CPROVER_is_fresh((PD).d, CEX_CAP((PD).n)))

#endif
