/* C models of the std:: entities the library uses.  ASSUMED contracts: they state the documented
 * C++ semantics of the containers, nothing about the library.  Each function has
 *   - a CBMC contract (used when the function is replaced in a caller's proof), and
 *   - an executable body (used natively for translation validation, and by CBMC when the
 *     function is *not* replaced in a harness).
 * Deallocation is not modelled: no model ever frees memory.
 * Included after the generated type definitions (needs struct ASAM_CMP_Decoder_SegmentedPacket etc.).
 */
#ifndef VERIF_MODELS_H
#define VERIF_MODELS_H

size_t g_k;      /* ghost byte index (never assigned) */
size_t g_i;      /* ghost element index (never assigned) */
size_t g_j, g_m; /* further ghost element indices (never assigned): pairwise facts, lookup witness */
uint8_t g_mt; uint16_t g_dt;   /* TECMP: message type / data type of the frame being decoded (assigned once per Decode, by ghost code at HandlePayload entry) */

/* =========================================================== memcpy with a non-constant length
 * g_k is the absolute byte index inside the DESTINATION OBJECT (buffers are whole objects, offset 0). */
void *verif_memcpy(void *dst, const void *src, size_t n)
__CPROVER_requires(n <= VEC_MAX)
__CPROVER_requires(n == 0 || !PRIV_ON || (__CPROVER_w_ok(dst, n) && __CPROVER_r_ok(src, n)))
__CPROVER_assigns((n > 0 && PRIV_ON): __CPROVER_object_upto(dst, n))
__CPROVER_ensures(__CPROVER_return_value == dst)
__CPROVER_ensures((PRIV_ON && n > 0 && g_k >= (size_t)__CPROVER_POINTER_OFFSET(dst) && g_k - (size_t)__CPROVER_POINTER_OFFSET(dst) < n) ==>
                  ((const uint8_t *)dst)[g_k - (size_t)__CPROVER_POINTER_OFFSET(dst)] == ((const uint8_t *)src)[g_k - (size_t)__CPROVER_POINTER_OFFSET(dst)])
/* explicit instances for the first two bytes (copies of 1..2 bytes, e.g. NUL padding) */
__CPROVER_ensures((PRIV_ON && n >= 1) ==> ((const uint8_t *)dst)[0] == ((const uint8_t *)src)[0])
__CPROVER_ensures((PRIV_ON && n >= 2) ==> ((const uint8_t *)dst)[1] == ((const uint8_t *)src)[1])
__CPROVER_ensures((PRIV_ON && n >= 5) ==> ((const uint8_t *)dst)[4] == ((const uint8_t *)src)[4])      /* TECMP CAN dlc */
{
    if (n) memcpy(dst, src, n);
    return dst;
}

/* =========================================================== memcmp with a non-constant length
 * result 0: the ranges agree (stated at the ghost index); result != 0: they differ at the ghost witness g_w, which the model sets.  Sign not modelled. */
extern size_t g_w;
int verif_memcmp(const void *a, const void *b, size_t n)
__CPROVER_requires(n <= VEC_MAX && (n == 0 || (__CPROVER_r_ok(a, n) && __CPROVER_r_ok(b, n))))
__CPROVER_assigns(g_w)
__CPROVER_ensures((__CPROVER_return_value == 0 && g_k < n) ==> ((const uint8_t *)a)[g_k] == ((const uint8_t *)b)[g_k])
__CPROVER_ensures(__CPROVER_return_value != 0 ==> (g_w < n && ((const uint8_t *)a)[g_w] != ((const uint8_t *)b)[g_w]))
{
    return n ? memcmp(a, b, n) : 0;
}

/* =========================================================== std::vector<uint8_t> */

/* vector() */
static inline struct vec_u8 vec_u8_make_empty(void)
{
    struct vec_u8 v; v.d = (uint8_t *)malloc(0); v.n = 0; return v;
}

/* vector(n): n value-initialised (zero) elements */
struct vec_u8 vec_u8_make_n(size_t n)
__CPROVER_requires(n <= VEC_MAX)
__CPROVER_ensures(__CPROVER_return_value.n == n)
__CPROVER_ensures(__CPROVER_is_fresh(__CPROVER_return_value.d, n))
__CPROVER_ensures(g_k < n ==> __CPROVER_return_value.d[g_k] == 0)
__CPROVER_assigns()
{
    struct vec_u8 v; v.d = (uint8_t *)calloc(n ? n : 1, 1); v.n = n;
    __CPROVER_assume(v.d != 0);
    return v;
}

/* vector(const vector&): deep copy */
struct vec_u8 vec_u8_copy(const struct vec_u8 *o)
__CPROVER_requires(__CPROVER_r_ok(o, sizeof(*o)) && o->n <= VEC_MAX && __CPROVER_r_ok(o->d, o->n))
__CPROVER_ensures(__CPROVER_return_value.n == o->n)
__CPROVER_ensures(__CPROVER_is_fresh(__CPROVER_return_value.d, o->n))
__CPROVER_ensures(g_k < o->n ==> __CPROVER_return_value.d[g_k] == o->d[g_k])
__CPROVER_ensures((o->n > 1 ==> __CPROVER_return_value.d[1] == o->d[1]) && (o->n > 4 ==> __CPROVER_return_value.d[4] == o->d[4]))      /* explicit instances: TECMP length bytes */
__CPROVER_assigns()
{
    struct vec_u8 v; v.d = (uint8_t *)malloc(o->n ? o->n : 1); v.n = o->n;
    __CPROVER_assume(v.d != 0);
    if (o->n) memcpy(v.d, o->d, o->n);
    return v;
}

/* vector(vector&&): steals the buffer, source left empty */
static inline struct vec_u8 vec_u8_move(struct vec_u8 *o)
{
    struct vec_u8 v = *o; o->d = (uint8_t *)malloc(0); o->n = 0; return v;
}

/* resize(n): keeps min(old,n) leading elements, appends value-initialised (zero) elements.  Shrinking never reallocates
 * (retained elements keep their addresses - C++ guarantee); growing hands out a new buffer in the model (the old one stays
 * allocated and unchanged, nothing is freed). */
void vec_u8_resize(struct vec_u8 *v, size_t n)
__CPROVER_requires(__CPROVER_rw_ok(v, sizeof(*v)))
__CPROVER_requires(v->n <= VEC_MAX)
__CPROVER_requires(v->n == 0 || !PRIV_ON || __CPROVER_r_ok(v->d, v->n))
__CPROVER_requires(n <= VEC_MAX)
__CPROVER_ensures(v->n == n)
__CPROVER_ensures(n <= __CPROVER_old(v->n) ==> v->d == __CPROVER_old(v->d))
__CPROVER_ensures(n > __CPROVER_old(v->n) ==> __CPROVER_is_fresh(v->d, n))
__CPROVER_ensures((n > __CPROVER_old(v->n) && g_k < __CPROVER_old(v->n)) ==> v->d[g_k] == (__CPROVER_old(v->d))[g_k])
__CPROVER_ensures((g_k < n && g_k >= __CPROVER_old(v->n)) ==> v->d[g_k] == 0)
__CPROVER_assigns(v->n; n > v->n: v->d)
{
    if (n > v->n) {
        uint8_t *nd = (uint8_t *)calloc(n ? n : 1, 1);
        __CPROVER_assume(nd != 0);
        if (v->n) memcpy(nd, v->d, v->n);
        v->d = nd;
    }
    v->n = n;
}

/* resize(n, val): shrinking never reallocates (retained elements keep their addresses - C++ guarantee); growing hands out
 * a new buffer in the model (the old one stays allocated and unchanged) */
void vec_u8_resize_val(struct vec_u8 *v, size_t n, uint8_t val)
__CPROVER_requires(__CPROVER_rw_ok(v, sizeof(*v)))
__CPROVER_requires(v->n <= VEC_MAX)
__CPROVER_requires(v->n == 0 || !PRIV_ON || __CPROVER_r_ok(v->d, v->n))
__CPROVER_requires(n <= VEC_MAX)
__CPROVER_ensures(v->n == n)
__CPROVER_ensures(n <= __CPROVER_old(v->n) ==> v->d == __CPROVER_old(v->d))
__CPROVER_ensures(n > __CPROVER_old(v->n) ==> __CPROVER_is_fresh(v->d, n))
__CPROVER_ensures((n > __CPROVER_old(v->n) && g_k < __CPROVER_old(v->n)) ==> v->d[g_k] == (__CPROVER_old(v->d))[g_k])
__CPROVER_ensures((g_k < n && g_k >= __CPROVER_old(v->n)) ==> v->d[g_k] == val)
__CPROVER_assigns(v->n; n > v->n: v->d)
{
    if (n > v->n) {
        uint8_t *nd = (uint8_t *)malloc(n ? n : 1);
        __CPROVER_assume(nd != 0);
        if (v->n) memcpy(nd, v->d, v->n);
        memset(nd + v->n, val, n - v->n);
        v->d = nd;
    }
    v->n = n;
}

/* assign(n, val): n copies of val (new buffer in the model) */
void vec_u8_assign_n(struct vec_u8 *v, size_t n, uint8_t val)
__CPROVER_requires(__CPROVER_rw_ok(v, sizeof(*v)) && n <= VEC_MAX)
__CPROVER_ensures(v->n == n && __CPROVER_is_fresh(v->d, n))
__CPROVER_ensures(g_k < n ==> v->d[g_k] == val)
__CPROVER_assigns(v->n, v->d)
{
    uint8_t *nd = (uint8_t *)malloc(n ? n : 1);
    __CPROVER_assume(nd != 0);
    memset(nd, val, n);
    v->d = nd; v->n = n;
}

/* assign(first, last) / vector(first, last): the elements of the byte range [first, last) */
void vec_u8_assign_range(struct vec_u8 *v, const uint8_t *first, const uint8_t *last)
__CPROVER_requires(__CPROVER_rw_ok(v, sizeof(*v)) && __CPROVER_same_object(first, last) && first <= last && (size_t)(last - first) <= VEC_MAX && (first == last || __CPROVER_r_ok(first, (size_t)(last - first))))
__CPROVER_ensures(v->n == (size_t)(last - first) && __CPROVER_is_fresh(v->d, v->n))
__CPROVER_ensures(g_k < v->n ==> v->d[g_k] == first[g_k])
__CPROVER_assigns(v->n, v->d)
{
    size_t n = (size_t)(last - first);
    v->d = (uint8_t *)malloc(n ? n : 1); __CPROVER_assume(v->d != 0);
    if (n) memcpy(v->d, first, n);
    v->n = n;
}
struct vec_u8 vec_u8_make_range(const uint8_t *first, const uint8_t *last)
__CPROVER_requires(__CPROVER_same_object(first, last) && first <= last && (size_t)(last - first) <= VEC_MAX && (first == last || __CPROVER_r_ok(first, (size_t)(last - first))))
__CPROVER_ensures(__CPROVER_return_value.n == (size_t)(last - first) && __CPROVER_is_fresh(__CPROVER_return_value.d, __CPROVER_return_value.n))
__CPROVER_ensures(g_k < __CPROVER_return_value.n ==> __CPROVER_return_value.d[g_k] == first[g_k])
__CPROVER_assigns()
{
    struct vec_u8 v; vec_u8_assign_range(&v, first, last); return v;
}

static inline void vec_u8_clear(struct vec_u8 *v) { v->n = 0; }

static inline struct vec_u8 *vec_u8_assign_move(struct vec_u8 *v, struct vec_u8 *o)
{
    if (v != o) { *v = *o; o->d = (uint8_t *)malloc(0); o->n = 0; }
    return v;
}

struct vec_u8 *vec_u8_assign_copy(struct vec_u8 *v, const struct vec_u8 *o)
__CPROVER_requires(__CPROVER_rw_ok(v, sizeof(*v)) && __CPROVER_r_ok(o, sizeof(*o)) && o->n <= VEC_MAX && __CPROVER_r_ok(o->d, o->n))
__CPROVER_ensures(__CPROVER_return_value == v)
__CPROVER_ensures(v != o ==> (v->n == o->n && __CPROVER_is_fresh(v->d, o->n) && (g_k < o->n ==> v->d[g_k] == o->d[g_k])))
__CPROVER_assigns(v->d, v->n)
{
    if (v != o) { struct vec_u8 c = vec_u8_copy(o); *v = c; }
    return v;
}

/* =========================================================== std::vector<std::vector<uint8_t>>
 * Encoder::cmpFrames.  Only the LAST frame is materialised, in one buffer of FRAME_CAP bytes whose address never changes:
 * the library reaches frames only through back(), push_back, empty, clear and move, so frames that are no longer the last
 * one are unobservable to it, and so is the identity of the last frame's storage.  push_back(t) therefore = "archive the
 * current frame (the ghost monitor has checked it at that moment) and re-initialise the buffer from t".
 * Because the underlying object is FRAME_CAP bytes, writes are bounded by the contracts (cursor + length <= back.n), not by
 * CBMC's object bounds. */
#define FRAME_CAP 65559ul      /* 65535 + 24: largest maxBytesPerMessage of the C07 domain */
static inline struct vec_frames vec_frames_make_empty(void)
{
    struct vec_frames f; f.n = 0; f.back.d = (uint8_t *)malloc(FRAME_CAP); f.back.n = 0;
    __CPROVER_assume(f.back.d != 0);
    return f;
}

/* push_back(const vector<uint8_t>& t): the new last frame is a copy of t */
#ifdef VERIF_FRAMES_HOOK
void tv_frames_hook(const struct vec_frames *f);
#endif
void vec_frames_push_back(struct vec_frames *f, const struct vec_u8 *t)
__CPROVER_requires(__CPROVER_rw_ok(f, sizeof(*f)) && __CPROVER_r_ok(t, sizeof(*t)) && t->n <= FRAME_CAP && (t->n == 0 || __CPROVER_r_ok(t->d, t->n)))
__CPROVER_requires(!PRIV_ON || t->n == 0 || __CPROVER_w_ok(f->back.d, t->n))
__CPROVER_requires(f->n < 0x7fffffffffffffffUL)
__CPROVER_ensures(f->n == __CPROVER_old(f->n) + 1)
__CPROVER_ensures(f->back.n == t->n && f->back.d == __CPROVER_old(f->back.d))
__CPROVER_ensures((PRIV_ON && g_k < t->n) ==> f->back.d[g_k] == t->d[g_k])
__CPROVER_ensures((PRIV_ON && t->n >= 8) ==> (f->back.d[0] == t->d[0] && f->back.d[1] == t->d[1] && f->back.d[2] == t->d[2] && f->back.d[3] == t->d[3] && \
                                              f->back.d[4] == t->d[4] && f->back.d[5] == t->d[5] && f->back.d[6] == t->d[6] && f->back.d[7] == t->d[7]))   /* explicit instances for the frame header */
__CPROVER_assigns(f->n, f->back.n; (PRIV_ON && t->n > 0): __CPROVER_object_upto(f->back.d, t->n))
{
#ifdef VERIF_FRAMES_HOOK
    tv_frames_hook(f);      /* native translation validation only: archive the frame that is about to be replaced */
#endif
    if (t->n) memcpy(f->back.d, t->d, t->n);
    f->back.n = t->n; f->n += 1;
}

static inline void vec_frames_clear(struct vec_frames *f) { f->n = 0; f->back.n = 0; }

static inline struct vec_frames vec_frames_move(struct vec_frames *o)
{
    struct vec_frames f = *o; o->n = 0; o->back.d = (uint8_t *)malloc(FRAME_CAP); o->back.n = 0;
    __CPROVER_assume(o->back.d != 0);
    return f;
}

/* =========================================================== std::vector<T> for class / smart-pointer elements */
/* element-content facts of push_back: on wherever buffer contents are in scope (PRIV_ON), off in a harness whose loop havocs the vector (-DVEC_ELEMS_OFF):
 * there the ghost flag `bad` carries what is known about the elements */
#ifdef VEC_ELEMS_OFF
#define VEC_ELEMS_ON 0
#else
#define VEC_ELEMS_ON PRIV_ON
#endif
#define DEFINE_VEC_MODEL(TAG, T)                                                                            \
void TAG##_push_back(struct TAG *v, T x)                                                                    \
__CPROVER_requires(__CPROVER_rw_ok(v, sizeof(*v)) && v->n < VEC_MAX)                                        \
__CPROVER_requires(VEC_PUSH_REQ_##TAG(x))                                                                   /* element condition of this vector type (default: none) */ \
__CPROVER_ensures(v->n == __CPROVER_old(v->n) + 1 && v->bad == __CPROVER_old(v->bad))                       \
__CPROVER_ensures(__CPROVER_is_fresh(v->d, v->n * sizeof(T)))                                               \
__CPROVER_ensures((VEC_ELEMS_ON && g_i < __CPROVER_old(v->n)) ==> VEC_ELEM_EQ_##TAG(v->d[g_i], (__CPROVER_old(v->d))[g_i]))   /* existing elements moved, not changed */ \
__CPROVER_ensures((VEC_ELEMS_ON && g_j < __CPROVER_old(v->n)) ==> VEC_ELEM_EQ_##TAG(v->d[g_j], (__CPROVER_old(v->d))[g_j]))   /* ... at the second ghost index too */ \
__CPROVER_ensures(VEC_ELEMS_ON ==> VEC_ELEM_EQ_##TAG(v->d[v->n - 1], x))                                        /* the new last element is x */ \
__CPROVER_assigns(v->d, v->n)                                                                               \
{                                                                                                           \
    T *nd = (T *)malloc((v->n + 1) * sizeof(T));                                                            \
    __CPROVER_assume(nd != 0);                                                                              \
    for (size_t i = 0; i < v->n; ++i) nd[i] = v->d[i];                                                      \
    nd[v->n] = x; v->d = nd; v->n += 1;                                                                     \
}                                                                                                           \
static inline void TAG##_pop_back(struct TAG *v) { v->n -= 1; }                                             \
static inline void TAG##_clear(struct TAG *v) { v->n = 0; }                                                 \
static inline struct TAG TAG##_move(struct TAG *o) { struct TAG r = *o; o->d = 0; o->n = 0; return r; }     \
static inline struct TAG *TAG##_assign_move(struct TAG *v, struct TAG *o)                                   \
{ if (v != o) { *v = *o; o->d = 0; o->n = 0; } return v; }                                                   \
struct TAG TAG##_copy(const struct TAG *o)                                                                  \
__CPROVER_requires(__CPROVER_r_ok(o, sizeof(*o)) && o->n <= VEC_MAX)      /* the element buffer o->d is owned by this model: its validity is the model's own invariant */ \
__CPROVER_ensures(__CPROVER_return_value.n == o->n && __CPROVER_return_value.bad == o->bad)                 \
__CPROVER_ensures(__CPROVER_is_fresh(__CPROVER_return_value.d, o->n * sizeof(T)))                           \
/* instantiation of "every element was pushed under the element condition" at the ghost index (ASSUMED: the meaning of the ghost flag `bad`) */ \
__CPROVER_ensures((o->bad == 0 && g_i < o->n) ==> VEC_ELEM_OK_##TAG(__CPROVER_return_value.d[g_i]))         \
__CPROVER_assigns()                                                                                         \
{                                                                                                           \
    struct TAG r; r.n = o->n; r.bad = o->bad; r.d = (T *)malloc((o->n ? o->n : 1) * sizeof(T));              \
    __CPROVER_assume(r.d != 0);                                                                             \
    for (size_t i = 0; i < o->n; ++i) r.d[i] = o->d[i];                                                     \
    return r;                                                                                               \
}

/* =========================================================== std::unordered_map<Endpoint, SegmentedPacket>
 * Single-slot abstraction: the map is observed at ONE arbitrary endpoint (m->key, nondet, never
 * assigned).  Every operation the decoder performs must use that key - this requirement is
 * the isolation obligation of C18; behaviour for other keys follows from the per-key independence
 * of std::unordered_map (assumed). */
#ifdef HAVE_ASAM_CMP_Decoder_SegmentedPacket
extern size_t g_map_ops;     /* ghost: number of map operations performed (C17: none on foreign input) */
void ASAM_CMP_Decoder_SegmentedPacket_ctor__void(struct ASAM_CMP_Decoder_SegmentedPacket *this);

static inline struct ASAM_CMP_Decoder_SegmentedPacket *map_slot_index(struct map_slot *m, struct ASAM_CMP_Decoder_Endpoint k)
{
    __CPROVER_assert(k.deviceId == m->key.deviceId && k.streamId == m->key.streamId, "[[C18:map_key_is_frame_endpoint]] map key is the endpoint of the current frame");
    g_map_ops += 1;
    if (!m->present) { ASAM_CMP_Decoder_SegmentedPacket_ctor__void(&m->value); m->present = 1; }
    return &m->value;
}
static inline void map_slot_erase(struct map_slot *m, struct ASAM_CMP_Decoder_Endpoint k)
{
    __CPROVER_assert(k.deviceId == m->key.deviceId && k.streamId == m->key.streamId, "[[C18:map_key_is_frame_endpoint]] map key is the endpoint of the current frame");
    g_map_ops += 1;
    m->present = 0; m->epoch += 1;
}
/* emplace / try_emplace: inserts only if the key is absent; an existing element is left untouched (value moved in: shallow copy) */
static inline void map_slot_emplace(struct map_slot *m, struct ASAM_CMP_Decoder_Endpoint k, struct ASAM_CMP_Decoder_SegmentedPacket *v)
{
    __CPROVER_assert(k.deviceId == m->key.deviceId && k.streamId == m->key.streamId, "[[C18:map_key_is_frame_endpoint]] map key is the endpoint of the current frame");
    g_map_ops += 1;
    if (!m->present) { m->value = *v; m->present = 1; }
}
static inline void map_slot_insert_or_assign(struct map_slot *m, struct ASAM_CMP_Decoder_Endpoint k, struct ASAM_CMP_Decoder_SegmentedPacket *v)
{
    __CPROVER_assert(k.deviceId == m->key.deviceId && k.streamId == m->key.streamId, "[[C18:map_key_is_frame_endpoint]] map key is the endpoint of the current frame");
    g_map_ops += 1;
    m->value = *v; m->present = 1;
}
static inline size_t map_slot_count(struct map_slot *m, struct ASAM_CMP_Decoder_Endpoint k)
{
    __CPROVER_assert(k.deviceId == m->key.deviceId && k.streamId == m->key.streamId, "[[C18:map_key_is_frame_endpoint]] map key is the endpoint of the current frame");
    return m->present ? 1 : 0;
}
/* find / end / iterators.  In the single-slot view an iterator is either "the element of the observed key" or end().  std::unordered_map::erase invalidates the
 * iterators to the erased element: every erase bumps the slot's ghost epoch, and dereferencing or erasing through an iterator of an older epoch (or end()) is
 * undefined behaviour in C++ - here a failed assertion.  (Invalidation by rehashing on insertion is not modelled.) */
static inline struct map_it map_slot_find(struct map_slot *m, struct ASAM_CMP_Decoder_Endpoint k)
{
    __CPROVER_assert(k.deviceId == m->key.deviceId && k.streamId == m->key.streamId, "[[C18:map_key_is_frame_endpoint]] map key is the endpoint of the current frame");
    struct map_it it; it.at_end = m->present ? 0 : 1; it.epoch = m->epoch; return it;      /* a lookup changes nothing: not counted as a map operation */
}
static inline struct map_it map_slot_end(struct map_slot *m) { (void)m; struct map_it it; it.at_end = 1; it.epoch = 0; return it; }
static inline _Bool map_it_eq(struct map_it a, struct map_it b) { return (a.at_end != 0) == (b.at_end != 0); }
static inline struct map_slot *map_it_deref(struct map_slot *m, struct map_it it)
{
    __CPROVER_assert(!it.at_end && it.epoch == m->epoch && m->present, "[[C02:map.iterator_valid_when_used]] iterator dereferenced after its element was erased (or end())");
    return m;
}
static inline struct map_it map_slot_erase_it(struct map_slot *m, struct map_it it)
{
    __CPROVER_assert(!it.at_end && it.epoch == m->epoch && m->present, "[[C02:map.iterator_valid_when_used]] erase through an iterator whose element was already erased (or end())");
    g_map_ops += 1; m->present = 0; m->epoch += 1;
    return map_slot_end(m);
}
/* clear(): touches every endpoint's slot - never allowed while decoding one endpoint's frame */
static inline void map_slot_clear(struct map_slot *m)
{
    __CPROVER_assert(0, "[[C18:map_key_is_frame_endpoint C17:decode.foreign_input_touches_nothing]] clear() drops the pending messages of every endpoint");
    g_map_ops += 1; m->present = 0; m->epoch += 1;
}
#endif

/* =========================================================== std::string_view / std::string */
#define SV_NPOS ((size_t)-1)
size_t sv_find(const struct sv *s, char c)
__CPROVER_requires(__CPROVER_r_ok(s, sizeof(*s)) && s->n <= VEC_MAX && __CPROVER_r_ok(s->p, s->n))
__CPROVER_ensures(__CPROVER_return_value == SV_NPOS || __CPROVER_return_value < s->n)
__CPROVER_ensures(__CPROVER_return_value != SV_NPOS ==> s->p[__CPROVER_return_value] == c)
__CPROVER_ensures(g_k < s->n && (__CPROVER_return_value == SV_NPOS || g_k < __CPROVER_return_value) ==> s->p[g_k] != c)
__CPROVER_assigns()
{
    for (size_t i = 0; i < s->n; ++i) if (s->p[i] == c) return i;
    return SV_NPOS;
}
static inline void sv_remove_suffix(struct sv *s, size_t n) { s->n -= n; }
static inline struct sv sv_from_cstr(const char *p) { __CPROVER_assert(p[0] == 0, "model: string_view(const char*) is only used with the literal \"\""); struct sv v; v.p = p; v.n = 0; return v; }
static inline struct sv str_view(const struct str *s) { struct sv v; v.p = s->p; v.n = s->n; return v; }
struct str str_from_int(int64_t v)              /* std::to_string: text opaque (ASSUMED); at most 20 characters */
__CPROVER_ensures(__CPROVER_return_value.n >= 1 && __CPROVER_return_value.n <= 20 && __CPROVER_is_fresh(__CPROVER_return_value.p, __CPROVER_return_value.n))
__CPROVER_assigns()
;

#endif
