/* prelude of every generated translation unit */
#ifndef VERIF_PRELUDE_H
#define VERIF_PRELUDE_H
#include <stdint.h>
#include <stddef.h>
#include <string.h>
#include <stdlib.h>

#ifdef VERIF_NATIVE
/* native build (translation validation): contracts vanish, models execute */
#define __CPROVER_requires(x)
#define __CPROVER_ensures(x)
#define __CPROVER_assigns(...)
#define __CPROVER_frees(...)
#define __CPROVER_loop_invariant(x)
#define __CPROVER_decreases(...)
#define __CPROVER_assume(x) ((void)0)
#define __CPROVER_assert(x, msg) ((void)0)
#endif

/* largest byte vector the proofs range over (protocol: 16-bit payload length + headers) */
#ifndef VEC_MAX
#define VEC_MAX 70000ul
#endif

#define VERIF_SWAP(T, a, b) do { T __swap_tmp = (a); (a) = (b); (b) = __swap_tmp; } while (0)

static inline size_t sz_max(size_t a, size_t b) { return a < b ? b : a; }   /* std::max: (a < b) ? b : a */
static inline size_t sz_min(size_t a, size_t b) { return b < a ? b : a; }   /* std::min: (b < a) ? b : a */

/* ---- ghost index: "for all k" statements about bytes are stated at g_k (nondet, never assigned) ---- */
extern size_t g_k;

/* ---- std::vector<uint8_t> ---- */
struct vec_u8 { uint8_t *d; size_t n; };
/* ---- std::vector<std::vector<uint8_t>> (Encoder::cmpFrames): only the last frame is materialised ---- */
struct vec_frames { size_t n; struct vec_u8 back; };
/* ---- std::string_view ---- */
struct sv { const char *p; size_t n; };
/* ---- std::string (opaque) ---- */
struct str { const char *p; size_t n; };
#endif
