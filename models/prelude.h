/* prelude of every generated translation unit */
#ifndef VERIF_PRELUDE_H
#define VERIF_PRELUDE_H
#include <stdint.h>
#include <stddef.h>
#include <string.h>
#include <stdlib.h>

#ifdef VERIF_NATIVE
/* native build (translation validation): contracts vanish, models execute */
#define __CPROVER_requires(x)
#define __CPROVER_ensures(x)
#define __CPROVER_assigns(...)
#define __CPROVER_frees(...)
#define __CPROVER_loop_invariant(x)
#define __CPROVER_decreases(...)
#define __CPROVER_assume(x) ((void)0)
#define __CPROVER_assert(x, msg) ((void)0)
#endif

/* largest byte vector the proofs range over (protocol: 16-bit payload length + headers) */
#ifndef VEC_MAX
#define VEC_MAX 0x7fffffffUL
#endif

/* counterexample mode (-DVERIF_CEX=K): byte buffers of symbolic length n are allocated with constant capacity K and
 * n <= K, so that CBMC's trace lists their initial bytes (same code, same contracts) */
#ifdef VERIF_CEX
#define CEX_CAP(n) ((size_t)VERIF_CEX)
#define CEX_LIMIT(n) ((n) <= (size_t)VERIF_CEX)
#else
#define CEX_CAP(n) (n)
#define CEX_LIMIT(n) 1
#endif

#ifdef VERIF_PUBLIC_ONLY
#define PRIV_ON 0
#else
#define PRIV_ON 1
#endif

#define VERIF_SWAP(T, a, b) do { T __swap_tmp = (a); (a) = (b); (b) = __swap_tmp; } while (0)

static inline size_t sz_max(size_t a, size_t b) { return a < b ? b : a; }   /* std::max: (a < b) ? b : a */
static inline size_t sz_min(size_t a, size_t b) { return b < a ? b : a; }   /* std::min: (b < a) ? b : a */

/* ---- specification vocabulary: raw bytes, big-endian words ---- */
#define B(p, i) (((const uint8_t *)(p))[i])
#define BE16(p, o) ((uint16_t)(((uint16_t)B(p, o) << 8) | (uint16_t)B(p, (o) + 1)))
#define BE32(p, o) ((uint32_t)(((uint32_t)B(p, o) << 24) | ((uint32_t)B(p, (o) + 1) << 16) | ((uint32_t)B(p, (o) + 2) << 8) | (uint32_t)B(p, (o) + 3)))
#define BE64(p, o) ((uint64_t)(((uint64_t)BE32(p, o) << 32) | (uint64_t)BE32(p, (o) + 4)))
static inline uint32_t verif_f2u(float f) { union { float f; uint32_t u; } x; x.f = f; return x.u; }
_Bool nondet_bool(void);
size_t nondet_size_t(void);
uint8_t nondet_u8(void);

/* ---- ghost index: "for all k" statements about bytes are stated at g_k (nondet, never assigned) ---- */
extern size_t g_k;

/* ---- std::vector<uint8_t> ---- */
struct vec_u8 { uint8_t *d; size_t n; };
/* ---- std::vector<std::vector<uint8_t>> (Encoder::cmpFrames): only the last frame is materialised ---- */
struct vec_frames { size_t n; struct vec_u8 back; };
/* ---- std::string_view ---- */
struct sv { const char *p; size_t n; };
/* ---- std::string (opaque) ---- */
struct str { const char *p; size_t n; };
#endif
