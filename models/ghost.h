/* ghost state shared by the spliced contracts (never touched by the translated code) */
#ifndef VERIF_GHOST_H
#define VERIF_GHOST_H
size_t g_map_ops;

/* public / private contract parts (DESIGN.md §3.2): memory-shape clauses of a class that owns a buffer are
 * assumed/established in the class's own harnesses and switched off where a member is replaced in an outside caller */
#ifdef VERIF_PUBLIC_ONLY
#define PRIV(x) 1
#else
#define PRIV(x) (x)

#endif

#define SLOT (this->segmentedPackets)
#define SV   (this->segmentedPackets.value)
#define DEC_M   ((const uint8_t *)data + g_next_off)       /* first message of the frame that was not delivered as an unsegmented packet */
#define DEC_REM (size - g_next_off)
/* the continuing segment M is accepted: the slot is still the entry slot (no unsegmented message of this frame closed it) and open, and M is its next segment */
#define DEC_ACC (g_delivered == g_reasm && g0_present != 0 && SP_ACCEPT(g0_segtype, g0_ver, g0_mtype, g0_seq, B(data, 0), B(data, 4), BE16(data, 6), DEC_M, DEC_REM))

/* ---- decoder monitor (C02 C04 C05 C06 C17 C18) ---- */
const uint8_t *g_frame;      /* the frame being decoded (assigned at function entry) */
size_t g_size;
size_t g_next_off;           /* offset of the next message that may be delivered as unsegmented: 8 + sum(16 + len_i) */
size_t g_delivered;          /* packets handed to the result list */
size_t g_reasm;              /* reassembled packets handed to the result list */
const uint8_t *g_src;        /* message bytes the most recently constructed Packet was built from */
uint8_t g0_present; uint16_t g0_seq; uint8_t g0_segtype; uint8_t g0_ver; uint8_t g0_mtype; size_t g0_n;   /* slot at entry */

/* ---- status tracker (C16) ---- */
size_t g_found;           /* ghost witness: position a lookup returned */
uint32_t g_key0;          /* ghost snapshot: interface key at g_i on entry */
size_t g_d;               /* device-level ghost index for the lookup witness (never assigned) */
size_t g_dfound;          /* device-level ghost witness: position the device lookup returned */
uint16_t g_dkey0;         /* ghost snapshot: device key at g_i on entry */
uint32_t g_lastkey;       /* ghost snapshot: key of the last entry on entry (swap-with-last removal) */
struct ASAM_CMP_DeviceStatus g_dev0, g_devlast;         /* ghost snapshots (shallow): the device entry at g_i / the last one, on entry */
struct ASAM_CMP_InterfaceStatus g_if0, g_iflast;        /* ghost snapshots (shallow): the interface entry at g_i / the last one, on entry */
/* Status::update replaces DeviceStatus::update.  The interface vector is a private member of DeviceStatus: its shape and the distinctness of its ids are
 * established and kept by DeviceStatus's own methods (proved in their own harnesses) and cannot be touched from Status (C++ access control), so -- as for
 * the other owning classes (DESIGN.md, public/private contract parts) -- those clauses are switched off where the member is replaced in this outside caller,
 * and the array CONTENTS are left out of the replaced frame (Status::update and its contract never read them; cbmc 6.11 runs out of memory otherwise). */
#ifdef ST_NESTED_ABSTRACT
#define ST_NESTED 0
#define ST_PRIV(x) 1
#else
#define ST_NESTED 1
#define ST_PRIV(x) (x)
#endif

/* ---- value semantics (C14) ---- */
size_t g_w;               /* ghost witness: index of a differing byte when an equality returns false */
/* VAL_PAYLOAD / VAL_PACKET: see vocab.h */
#ifdef VERIF_ALIAS
/* aliased harnesses: both sides / target and source are the SAME object (no separation assumed) */
#define EQ_RHS(l, r)         ((r) == (l))
#define EQ_RHS_PACKET(l, r)  ((r) == (l))
#define ASSIGN_THIS(t)       __CPROVER_rw_ok((t), sizeof(*(t)))        /* the harness allocates the object and passes it on both sides */
#define ASSIGN_RHS(t, o)     ((const void *)(o) == (const void *)(t))
#else
#define EQ_RHS(l, r)         VAL_PAYLOAD(r)
#define EQ_RHS_PACKET(l, r)  VAL_PACKET(r)
#define ASSIGN_THIS(t)       __CPROVER_is_fresh((t), sizeof(*(t)))
#define ASSIGN_RHS(t, o)     VAL_PACKET(o)
#endif
#define KLEN(p)          ((p)->payload ? (size_t)(uint16_t)(p)->payload->payloadData.n : (size_t)0)       /* payload length a Packet reports */
#define PKT_SCALARS_EQ(a, b) ((a)->version == (b)->version && (a)->deviceId == (b)->deviceId && (a)->streamId == (b)->streamId && (a)->sequenceCounter == (b)->sequenceCounter && \
                              (a)->timestamp == (b)->timestamp && (a)->interfaceId == (b)->interfaceId && (a)->vendorId == (b)->vendorId && (a)->commonFlags == (b)->commonFlags && (a)->segmentType == (b)->segmentType)
#define PKT_SCALARS_EQ_V(v, b) ((v).version == (b)->version && (v).deviceId == (b)->deviceId && (v).streamId == (b)->streamId && (v).sequenceCounter == (b)->sequenceCounter && \
                              (v).timestamp == (b)->timestamp && (v).interfaceId == (b)->interfaceId && (v).vendorId == (b)->vendorId && (v).commonFlags == (b)->commonFlags && (v).segmentType == (b)->segmentType)
#define PKT_SCALARS_EQ_OLD(a, b) ((a)->version == __CPROVER_old((b)->version) && (a)->deviceId == __CPROVER_old((b)->deviceId) && (a)->streamId == __CPROVER_old((b)->streamId) && (a)->sequenceCounter == __CPROVER_old((b)->sequenceCounter) && \
                              (a)->timestamp == __CPROVER_old((b)->timestamp) && (a)->interfaceId == __CPROVER_old((b)->interfaceId) && (a)->vendorId == __CPROVER_old((b)->vendorId) && (a)->commonFlags == __CPROVER_old((b)->commonFlags) && (a)->segmentType == __CPROVER_old((b)->segmentType))

/* ---- encoder monitor M_E (C01 C07 C08 C09 C10 C20) ---- */
size_t  g_pkt_pos;        /* payload bytes of the current packet already emitted */
size_t  g_frame_msgs;     /* messages in the current frame */
size_t  g_used;           /* bytes of the current frame in use ACCORDING TO THE EVENTS (8 at open, +16 per message header, +n per copied slice): independent of the
                             encoder's own bookkeeping (bytesLeft), which E_INV ties to it */
uint8_t g_frame_has_seg;  /* current frame holds a segment */
uint8_t g_seg_state;      /* 0 none, 4 after first, 8 after intermediary */
uint8_t g_frame_closed;   /* current frame trimmed: nothing may be appended */
#define E_LEN(p)   ((size_t)(uint16_t)(p)->payload->payloadData.n)
#define E_MT(p)    ((uint8_t)(((p)->payload->type.type & 0xFF00u) >> 8))
#define E_RAW(p)   ((uint8_t)((p)->payload->type.type & 0xFFu))
#define E_MAX      (this->maxBytesPerMessage)
#define E_MIN      (this->minBytesPerMessage)
#define E_BACK     (this->cmpFrames.back)
#define E_USED     (E_BACK.n - this->bytesLeft)                  /* cursor: bytes of the current frame in use */
#define E_CFG      (E_MAX >= 25 && E_MAX <= FRAME_CAP && E_MIN <= E_MAX)
/* the current frame: open (size max, header + complete messages so far) or closed (trimmed, >= 1 message) */
#define E_INV      (this->cmpFrames.n > 0 && this->bytesLeft <= E_MAX - 8 && g_frame_msgs <= FRAME_CAP && \
                    (g_frame_msgs == 0 ==> g_frame_has_seg == 0) && (g_frame_has_seg != 0 ==> (g_frame_msgs == 1 && (g_frame_closed != 0 || this->bytesLeft == 0))) && \
                    g_used >= 8 && g_used <= E_MAX && \
                    (g_frame_closed ? (this->bytesLeft == 0 && g_frame_msgs >= 1 && E_BACK.n >= 8 + 17 && E_BACK.n <= E_MAX && E_BACK.n >= E_MIN && E_BACK.n == (g_used > E_MIN ? g_used : E_MIN)) \
                                    : (E_BACK.n == E_MAX && E_BACK.n - this->bytesLeft == g_used && (g_frame_msgs == 0 ? this->bytesLeft == E_MAX - 8 : 8 + 17 * g_frame_msgs <= E_MAX - this->bytesLeft))))
#define PKT_SHAPE(p) (__CPROVER_is_fresh((p), sizeof(*(p))) && __CPROVER_is_fresh((p)->payload, sizeof(*(p)->payload)) && (p)->payload->payloadData.n >= 1 && \
                      (p)->payload->payloadData.n <= 65535 && PRIV(CEX_LIMIT((p)->payload->payloadData.n) && __CPROVER_is_fresh((p)->payload->payloadData.d, CEX_CAP((p)->payload->payloadData.n))))
#define ENC_BUF    (__CPROVER_is_fresh(E_BACK.d, E_MAX))      /* capacity of the stable frame buffer: at least the configured maximum */
#define BATCH_ELEM_OK(k) ((k) < g_batch_n ==> (__CPROVER_is_fresh(begin[k].payload, sizeof(struct ASAM_CMP_Payload)) && begin[k].payload->payloadData.n >= 1 && \
                                              begin[k].payload->payloadData.n <= 65535 && E_MT(&begin[k]) != 0 && begin[k].version == g_version))
/* the same for a batch of shared_ptr<Packet>: every pointer of the batch refers to an encodable packet */
#define BATCH_ELEM_OK_P(k) ((k) < g_batch_n ==> (__CPROVER_is_fresh(begin[k], sizeof(struct ASAM_CMP_Packet)) && __CPROVER_is_fresh(begin[k]->payload, sizeof(struct ASAM_CMP_Payload)) && \
                                              begin[k]->payload->payloadData.n >= 1 && begin[k]->payload->payloadData.n <= 65535 && E_MT(begin[k]) != 0 && begin[k]->version == g_version))
#ifdef VERIF_BATCH_MAX
/* bounded stand-in: batch length 0..VERIF_BATCH_MAX (<= 3), every element required encodable explicitly */
#define BATCH_MAX ((size_t)VERIF_BATCH_MAX)
#define BATCH_ALL_OK (BATCH_ELEM_OK(0) && BATCH_ELEM_OK(1) && BATCH_ELEM_OK(2))
#define BATCH_ALL_OK_P (BATCH_ELEM_OK_P(0) && BATCH_ELEM_OK_P(1) && BATCH_ELEM_OK_P(2))
#define BATCH_INSTANTIATE ((void)0)
#else
#define BATCH_MAX ((size_t)0xfffff)
#define BATCH_ALL_OK BATCH_ELEM_OK(g_i)                      /* at the ghost index (arbitrary, never assigned): for all packets */
#define BATCH_ALL_OK_P BATCH_ELEM_OK_P(g_i)
#define BATCH_INSTANTIATE __CPROVER_assume(g_done == g_i)   /* forall-instantiation: the loop body is checked for the iteration that handles packet g_i */
#endif
size_t g_n0;               /* frames opened before the current putPacket */
size_t g_closed_size;      /* final size of the frame that a roll-over closed (captured when the frame list takes the next frame) */
size_t g_batch_n;          /* number of packets of the batch (ghost constant) */
size_t g_done;             /* packets of the batch encoded so far */
uint8_t g_version;        /* the batch's protocol version (ghost constant: never assigned) */
/* the cached frame template: version of the batch, reserved byte zero, the ENCODER's device and stream id, the message type being encoded */
#define TEMPLATE_OK(t) (B(t, 0) == g_version && B(t, 1) == 0 && BE16(t, 2) == this->deviceId && B(t, 4) == this->messageType && B(t, 5) == this->streamId && \
                        ((g_k >= 8 && g_k < E_MAX) ==> (t)[g_k] == 0))
/* post-state address of the message header that was just written (cursor before the call) */
#define HDR_AT     (E_BACK.d + (E_BACK.n - this->bytesLeft - 16))
#endif
