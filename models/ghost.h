/* ghost state shared by the spliced contracts (never touched by the translated code) */
#ifndef VERIF_GHOST_H
#define VERIF_GHOST_H
size_t g_map_ops;
#endif
