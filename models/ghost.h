/* ghost state shared by the spliced contracts (never touched by the translated code) */
#ifndef VERIF_GHOST_H
#define VERIF_GHOST_H
size_t g_map_ops;

/* public / private contract parts (DESIGN.md §3.2): memory-shape clauses of a class that owns a buffer are
 * assumed/established in the class's own harnesses and switched off where a member is replaced in an outside caller */
#ifdef VERIF_PUBLIC_ONLY
#define PRIV(x) 1
#else
#define PRIV(x) (x)
#endif

#define SLOT (this->segmentedPackets)
#define SV   (this->segmentedPackets.value)
#define DEC_M   ((const uint8_t *)data + g_next_off)       /* first message of the frame that was not delivered as an unsegmented packet */
#define DEC_REM (size - g_next_off)
/* the continuing segment M is accepted: the slot is still the entry slot (no unsegmented message of this frame closed it) and open, and M is its next segment */
#define DEC_ACC (g_delivered == g_reasm && g0_present != 0 && SP_ACCEPT(g0_segtype, g0_ver, g0_mtype, g0_seq, B(data, 0), B(data, 4), BE16(data, 6), DEC_M, DEC_REM))

/* ---- decoder monitor (C02 C04 C05 C06 C17 C18) ---- */
const uint8_t *g_frame;      /* the frame being decoded (assigned at function entry) */
size_t g_size;
size_t g_next_off;           /* offset of the next message that may be delivered as unsegmented: 8 + sum(16 + len_i) */
size_t g_delivered;          /* packets handed to the result list */
size_t g_reasm;              /* reassembled packets handed to the result list */
const uint8_t *g_src;        /* message bytes the most recently constructed Packet was built from */
uint8_t g0_present; uint16_t g0_seq; uint8_t g0_segtype; uint8_t g0_ver; uint8_t g0_mtype; size_t g0_n;   /* slot at entry */
#endif
