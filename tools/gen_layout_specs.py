#!/usr/bin/env python3
"""Generate accessor contracts + harnesses (C11 / C12) from the wire layout tables.

Every getter gets   ensures result == <big-endian decode of the raw bytes at the table's offset>
Every setter gets   ensures for EVERY byte of the object: new byte == table's encoding (bytes outside
                    the field: == old byte), for arbitrary prior contents and every in-range value.
Payload-class forwarders get the same contracts over the header bytes at the start of payloadData,
plus: length, buffer identity, payload type and every byte behind the header unchanged.
The library's struct member names never appear: postconditions talk about raw bytes only.
"""
import re, sys, collections

def cname(q): return re.sub(r'[^A-Za-z0-9_]', '_', q.replace('::', '_'))

CT = {1: 'uint8_t', 2: 'uint16_t', 4: 'uint32_t', 8: 'uint64_t'}

PLAINS = []
def parse(path):
    del PLAINS[:]
    classes = collections.OrderedDict(); payloads = []
    cur = None
    for ln, raw in enumerate(open(path), 1):
        s = raw.split('##')[0].strip()
        if not s: continue
        t = s.split()
        kv = {}
        for x in t:
            if '=' in x: a, b = x.split('=', 1); kv[a] = b
        if t[0] == 'class':
            cur = {'kind': 'class', 'name': t[1], 'size': int(kv['size']), 'fields': collections.OrderedDict(), 'reserved': [], 'default': kv.get('default'), 'line': ln}
            classes[t[1]] = cur
        elif t[0] == 'payload':
            cur = {'kind': 'payload', 'name': t[1], 'header': kv['header'], 'vec': kv['vec'], 'fw': [], 'ctor': kv.get('ctor'), 'type': kv.get('type'), 'native': kv.get('native'), 'line': ln}
            payloads.append(cur)
        elif t[0] == 'plain':
            cur = {'kind': 'plain', 'name': t[1], 'members': [], 'acc': []}
            PLAINS.append(cur)
        elif t[0] in ('m', 'b', 'k', 'x') and cur and cur.get('kind') == 'plain':
            if t[1] not in cur['members']: cur['members'].append(t[1])
            if t[0] != 'x':
                cur['acc'].append({'k': t[0], 'member': t[1], 'ctype': t[2], 'get': kv.get('get'), 'set': kv.get('set'),
                                   'mask': int(kv['mask'], 0) if 'mask' in kv else None, 'shift': int(kv.get('shift', '0'))})
        elif t[0] == 'f':
            f = {'name': t[1], 'off': int(t[2]), 'width': int(t[3]), 'kind': t[4], 'get': kv.get('get'), 'set': kv.get('set'),
                 'mask': int(kv['mask'], 0) if 'mask' in kv else None, 'shift': int(kv.get('shift', '0')),
                 'vals': [int(v, 0) for v in kv['vals'].split(',')] if 'vals' in kv else None, 'retshl': int(kv.get('retshl', '0')), 'line': ln}
            cur['fields'][f['name']] = f
        elif t[0] == 'r':
            cur['reserved'].append((int(t[1]), int(t[2])))
        elif t[0] == 'fw':
            cur['fw'].append({'field': t[1], 'get': kv.get('get'), 'set': kv.get('set'), 'line': ln})
        else:
            raise SystemExit(f"{path}:{ln}: bad line: {s}")
    return classes, payloads

def word(p, off, w, old=False):
    """C expression: big-endian value of the w-byte word at byte offset off of object p"""
    def b(i):
        e = f"B({p},{i})"
        return f"__CPROVER_old({e})" if old else e
    if w == 1: return f"((uint8_t){b(off)})"
    parts = []
    for i in range(w):
        sh = 8 * (w - 1 - i)
        parts.append(f"(({CT[w]}){b(off + i)} << {sh})" if sh else f"(({CT[w]}){b(off + i)})")
    return '(' + ' | '.join(parts) + ')'

def full_mask(w): return (1 << (8 * w)) - 1

def getter_value(f, W):
    k = f['kind']
    if k in ('uint', 'enum'): return f"__CPROVER_return_value == {W}"
    if k == 'bits':
        e = f"(({W} & {f['mask']:#x}u) >> {f['shift']})"
        if f['retshl']: e = f"({e} << {f['retshl']})"
        return f"__CPROVER_return_value == {e}"
    if k == 'bool': return f"(__CPROVER_return_value != 0) == (({W} & {f['mask']:#x}u) != 0)"
    if k == 'float': return f"verif_f2u(__CPROVER_return_value) == {W}"
    if k == 'maskflag': return f"(__CPROVER_return_value != 0) == (({W} & ({CT[f['width']]})mask) != 0)"
    raise SystemExit('kind ' + k)

def new_word(f, OW, arg):
    """expression of the new big-endian word after the setter"""
    k = f['kind']; w = f['width']; ct = CT[w]
    if k in ('uint', 'enum'): return f"(({ct}){arg})"
    if k == 'float': return f"verif_f2u({arg})"
    if k == 'bits':
        v = f"(({ct}){arg})"
        if f['retshl']: v = f"({v} >> {f['retshl']})"
        return f"(({ct})(({OW} & ~({ct}){f['mask']:#x}u) | (({v} << {f['shift']}) & ({ct}){f['mask']:#x}u)))"
    if k == 'bool': return f"(({ct})({arg} ? ({OW} | ({ct}){f['mask']:#x}u) : ({OW} & ~({ct}){f['mask']:#x}u)))"
    if k == 'maskflag': return f"(({ct})({arg} ? ({OW} | ({ct})mask) : ({OW} & ~({ct})mask)))"
    raise SystemExit('kind ' + k)

def range_req(f, arg):
    if f['vals'] is not None:
        vs = [v << f['retshl'] for v in f['vals']]
        return '(' + ' || '.join(f"{arg} == {v}" for v in vs) + ')'
    if f['kind'] == 'bits':
        return f"((uint64_t){arg} <= {(f['mask'] >> f['shift']) << f['retshl']:#x}ul)"
    return None

def emit_accessors(out, hn, cls, objexpr, this_req, extra_ens, assigns, fn_prefix, fields, tagp, harness_decl, call_prefix, props_extra=''):
    """objexpr: C expression of the pointer to the header bytes"""
    size = cls['size']
    for (f, gname, sname, srcline) in fields:
        W = word(objexpr, f['off'], f['width'])
        OW = word(objexpr, f['off'], f['width'], old=True)
        flagparam = f['kind'] == 'maskflag'
        if gname:
            fn = fn_prefix + gname
            out.append(f"@fn {fn}")
            out.append('@contract')
            for r in this_req: out.append(f"__CPROVER_requires({r})")
            out.append('__CPROVER_assigns()')
            out.append(f"__CPROVER_ensures({getter_value(f, W)})   //# C12:{tagp}.{f['name']}.get@{f['off']} C11:{tagp}.{f['name']}.readback")
            out.append('@end')
            out.append(f"@harness h_{fn}")
            out.append('@props C11 C12')
            out.append(f"@enforce {fn}")
            out.append('@body')
            arg = ', m' if flagparam else ''
            decl = f" {CT[f['width']]} m;" if flagparam else ''
            out.append(f"void HARNESS(void) {{ {harness_decl}{decl} {fn}(o{arg}); __CPROVER_assert(0, \"CANARY\"); }}")
            out.append('@end')
        if sname:
            fn = fn_prefix + sname
            k = f['kind']
            argname = 'v'
            out.append(f"@fn {fn}")
            out.append('@contract')
            for r in this_req: out.append(f"__CPROVER_requires({r})")
            rr = range_req(f, 'VERIF_ARG1' if not flagparam else 'VERIF_ARG2')
            if rr: out.append(f"__CPROVER_requires({rr})")
            out.append(f"__CPROVER_assigns({assigns})")
            a = 'VERIF_ARG2' if flagparam else 'VERIF_ARG1'
            NW = new_word(f, OW, a).replace('mask', 'VERIF_ARG1') if flagparam else new_word(f, OW, a)
            for j in range(size):
                if f['off'] <= j < f['off'] + f['width']:
                    sh = 8 * (f['width'] - 1 - (j - f['off']))
                    out.append(f"__CPROVER_ensures(B({objexpr},{j}) == (uint8_t)({NW} >> {sh}))   //# C12:{tagp}.{f['name']}.set@{j} C11:{tagp}.{f['name']}.value")
                else:
                    out.append(f"__CPROVER_ensures(B({objexpr},{j}) == __CPROVER_old(B({objexpr},{j})))   //# C11:{tagp}.{f['name']}.other@{j}")
            for e in extra_ens: out.append(e)
            out.append('@end')
            out.append(f"@harness h_{fn}")
            out.append('@props C11 C12')
            out.append(f"@enforce {fn}")
            out.append('@body')
            if flagparam:
                out.append(f"void HARNESS(void) {{ {harness_decl} {CT[f['width']]} m; _Bool v = nondet_bool(); {fn}(o, m, v); __CPROVER_assert(0, \"CANARY\"); }}")
            elif k == 'bool':
                out.append(f"void HARNESS(void) {{ {harness_decl} _Bool v = nondet_bool(); {fn}(o, v); __CPROVER_assert(0, \"CANARY\"); }}")
            elif k == 'float':
                out.append(f"void HARNESS(void) {{ {harness_decl} float v; {fn}(o, v); __CPROVER_assert(0, \"CANARY\"); }}")
            else:
                out.append(f"void HARNESS(void) {{ {harness_decl} uint64_t v; {fn}(o, v); __CPROVER_assert(0, \"CANARY\"); }}")
            out.append('@end')

def main(tbl, outpath):
    classes, payloads = parse(tbl)
    out = ['## GENERATED by tools/gen_layout_specs.py from ' + tbl + ' - do not edit']
    for q, cls in classes.items():
        cn = cname(q)
        fields = [(f, f['get'], f['set'], f['line']) for f in cls['fields'].values()]
        emit_accessors(out, cn, cls, 'this', [f"__CPROVER_is_fresh(this, {cls['size']})"], [], f"__CPROVER_object_upto(this, {cls['size']})",
                       cn + '_', fields, cn.replace('ASAM_CMP_', ''), f"struct {cn} *o;", '')
    for p in payloads:
        cls = classes[p['header']]; cn = cname(p['name']); vec = p['vec']; hs = cls['size']
        typ = vec.replace('payloadData', 'type.type')
        fields = []
        for fw in p['fw']:
            f = cls['fields'][fw['field']]
            fields.append((f, fw['get'], fw['set'], fw['line']))
        req = [f"__CPROVER_is_fresh(this, sizeof(*this))", f"{vec}.n >= {hs} && {vec}.n <= VEC_MAX && CEX_LIMIT({vec}.n)", f"__CPROVER_is_fresh({vec}.d, CEX_CAP({vec}.n))"]
        tagp = cn.replace('ASAM_CMP_', '')
        ens = [f"__CPROVER_ensures({vec}.n == __CPROVER_old({vec}.n) && {vec}.d == __CPROVER_old({vec}.d))   //# C11:{tagp}.buffer_identity",
               f"__CPROVER_ensures({typ} == __CPROVER_old({typ}))   //# C11:{tagp}.type_unchanged",
               f"__CPROVER_ensures((g_k >= {hs} && g_k < {vec}.n) ==> {vec}.d[g_k] == __CPROVER_old({vec}.d[g_k & -(size_t)(g_k < {vec}.n)]))   //# C11:{tagp}.data_bytes_unchanged"]
        emit_accessors(out, cn, cls, f"{vec}.d", req, ens, f"__CPROVER_object_upto({vec}.d, {hs})", cn + '_', fields, tagp, f"struct {cn} *o;", '')
        if p['ctor']:
            n = int(p['ctor']); fn = cn + '_ctor__void'
            out.append(f"@fn {fn}")
            out.append('@contract')
            out.append('__CPROVER_requires(__CPROVER_is_fresh(this, sizeof(*this)))')
            out.append('__CPROVER_assigns(__CPROVER_object_whole(this))')
            out.append(f"__CPROVER_ensures({vec}.n == {n})   //# C12:{tagp}.default_size C20:{tagp}.default_size")
            out.append(f"__CPROVER_ensures({typ} == {p['type']})   //# C12:{tagp}.default_type")
            for j in range(n):
                out.append(f"__CPROVER_ensures({vec}.d[{j}] == 0)   //# C12:{tagp}.default_zero@{j} C20:{tagp}.default_defined@{j}")
            out.append('@end')
            out.append(f"@harness h_{fn}")
            out.append('@props C12 C20')
            out.append(f"@enforce {fn}")
            out.append('@body')
            out.append(f"void HARNESS(void) {{ struct {cn} *o; {fn}(o); __CPROVER_assert(0, \"CANARY\"); }}")
            out.append('@end')
    for pl in PLAINS:
        cn = cname(pl['name']); tagp = cn.replace('ASAM_CMP_', '')
        for a in pl['acc']:
            mem = a['member']; ct = a['ctype']
            others = [m for m in pl['members'] if m != mem]
            if a['get']:
                fn = cn + '_' + a['get']
                out += [f"@fn {fn}", '@contract', '__CPROVER_requires(__CPROVER_is_fresh(this, sizeof(*this)))', '__CPROVER_assigns()']
                if a['k'] == 'm': val = f"__CPROVER_return_value == this->{mem}"
                elif a['k'] == 'b': val = f"__CPROVER_return_value == ((this->{mem} & {a['mask']:#x}u) >> {a['shift']})"
                else: val = f"(__CPROVER_return_value != 0) == ((this->{mem} & ({ct})VERIF_ARG1) != 0)"
                out += [f"__CPROVER_ensures({val})   //# C11:{tagp}.{a['get']}.readback", '@end', f"@harness h_{fn}", '@props C11', f"@enforce {fn}", '@body']
                arg = ', m' if a['k'] == 'k' else ''; decl = f" {ct} m;" if a['k'] == 'k' else ''
                out += [f"void HARNESS(void) {{ struct {cn} *o;{decl} {fn}(o{arg}); __CPROVER_assert(0, \"CANARY\"); }}", '@end']
            if a['set']:
                fn = cn + '_' + a['set']
                out += [f"@fn {fn}", '@contract', '__CPROVER_requires(__CPROVER_is_fresh(this, sizeof(*this)))']
                if a['k'] == 'b': out.append(f"__CPROVER_requires((uint64_t)VERIF_ARG1 <= {a['mask'] >> a['shift']:#x}ul)")
                out.append('__CPROVER_assigns(*this)')
                if a['k'] == 'm': val = f"this->{mem} == VERIF_ARG1"
                elif a['k'] == 'b': val = f"this->{mem} == ((__CPROVER_old(this->{mem}) & ~({ct}){a['mask']:#x}u) | ((({ct})VERIF_ARG1) << {a['shift']}))"
                else: val = f"this->{mem} == ({ct})(VERIF_ARG2 ? (__CPROVER_old(this->{mem}) | ({ct})VERIF_ARG1) : (__CPROVER_old(this->{mem}) & ~({ct})VERIF_ARG1))"
                out.append(f"__CPROVER_ensures({val})   //# C11:{tagp}.{a['set']}.value")
                for m in others: out.append(f"__CPROVER_ensures(this->{m} == __CPROVER_old(this->{m}))   //# C11:{tagp}.{a['set']}.other.{m}")
                out += ['@end', f"@harness h_{fn}", '@props C11', f"@enforce {fn}", '@body']
                if a['k'] == 'k': out.append(f"void HARNESS(void) {{ struct {cn} *o; {ct} m; _Bool v = nondet_bool(); {fn}(o, m, v); __CPROVER_assert(0, \"CANARY\"); }}")
                else: out.append(f"void HARNESS(void) {{ struct {cn} *o; uint64_t v; {fn}(o, v); __CPROVER_assert(0, \"CANARY\"); }}")
                out.append('@end')
    open(outpath, 'w').write('\n'.join(out) + '\n')

if __name__ == '__main__':
    main(sys.argv[1], sys.argv[2])
