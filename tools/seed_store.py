#!/usr/bin/env python3
"""record the outcome of a seeded change in /verif/seeded/<id>/meta.json:
   seed_store.py <id> <confirm result file> <check log>      (patch.diff / demo.cpp / the author's meta.json are already in seeded/<id>/)"""
import sys, os, json, re
ident, confirm_file, log = sys.argv[1:4]
prop = ident[:3]
dst = os.path.join('/verif/seeded', ident)
meta = json.load(open(os.path.join(dst, 'meta.json')))
confirm = open(confirm_file).read().strip() if os.path.exists(confirm_file) else meta.get('confirmed_by_me', '')
txt = open(log).read() if os.path.exists(log) else ''
vio = re.findall(r'^VIOLATION property=(\S+) replay=\S+ obligation=(\S+)(?: function=(\S+))?(.*)$', txt, re.M)
inc = re.findall(r'^INCONCLUSIVE property=\S+:? (.*)$', txt, re.M)
last = [l for l in txt.strip().split('\n') if l.startswith('[') and 'obligations=' in l][-1:]
meta.update({'property': prop, 'confirmed_by_me': confirm,
             'what_i_ran': f"tools/seed_confirm.sh (scratch worktree: demonstration passes without the patch, patch applies, -Werror build, 293 tests pass, demonstration fails with it); tools/seed_check.sh: VERIF_REPO=<scratch worktree with the patch> ./vf check {prop} --quick",
             'check_exit': 1 if vio else (2 if inc or not last else 0), 'detected': bool(vio),
             'failed_obligations': sorted({f"{o} @ {fn or '-'}" + (' (no native reproduction)' if 'no-failing-input-found' in t else ' (replayed natively)') for _, o, fn, t in vio})[:12],
             'why_not': (inc[0][:300] if inc and not vio else ''),
             'summary_line': last[0] if last else ''})
json.dump(meta, open(os.path.join(dst, 'meta.json'), 'w'), indent=1)
print(ident, 'detected' if vio else ('INCONCLUSIVE' if meta['check_exit'] == 2 else 'MISSED'), len(vio))
