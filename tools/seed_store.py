#!/usr/bin/env python3
"""copy a confirmed seeded change into /verif/seeded/<id>/ and record what was run: seed_store.py <mutant dir> <id> <confirm line> <check log> <property>"""
import sys, os, json, shutil, re
m, ident, confirm, log, prop = sys.argv[1:6]
dst = os.path.join('/verif/seeded', ident); os.makedirs(dst, exist_ok=True)
for f in ('patch.diff', 'demo.cpp'): shutil.copy(os.path.join(m, f), os.path.join(dst, f))
meta = json.load(open(os.path.join(m, 'meta.json')))
txt = open(log).read() if os.path.exists(log) else ''
vio = re.findall(r'^VIOLATION property=(\S+) replay=\S+ obligation=(\S+) function=(\S+)(.*)$', txt, re.M)
last = [l for l in txt.strip().split('\n') if l.startswith('[')][-1:] 
meta.update({'property': prop, 'confirmed_by_me': confirm,
             'what_i_ran': f"tools/seed_confirm.sh (scratch worktree: demo passes without the patch, patch applies, -Werror build, 293 tests pass, demo fails with it); tools/seed_check.sh: VERIF_REPO=<scratch worktree with the patch> ./vf check {prop} --quick",
             'check_exit': 1 if vio else (2 if 'INCONCLUSIVE' in txt else 0), 'detected': bool(vio),
             'failed_obligations': sorted({f"{o} @ {fn}" + (' (no native reproduction)' if 'no-failing-input-found' in t else ' (replayed natively)') for _, o, fn, t in vio})[:12],
             'summary_line': last[0] if last else ''})
json.dump(meta, open(os.path.join(dst, 'meta.json'), 'w'), indent=1)
print(ident, 'detected' if vio else 'MISSED', len(vio))
