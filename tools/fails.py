#!/usr/bin/env python3
"""debug helper: list the non-successful obligations of a kept harness run (vf check ... --keep)"""
import json, sys, glob, os, re
pat = sys.argv[1]
for f in sorted(glob.glob(f'/verif/.work/*/h/{pat}/out.json'), key=os.path.getmtime)[-1:]:
    print(f)
    j = json.load(open(f)); seen = set()
    for m in j:
        if 'result' in m:
            for r in m['result']:
                if r['status'] != 'SUCCESS':
                    d = re.sub(r'\.\d+$', '', r['property']) + ' | ' + r['description'][:int(os.environ.get('W', '220'))]
                    key = (re.sub(r'\.\d+$', '', r['property']), r['description'].split(' in ')[-1][:80])
                    if key in seen: continue
                    seen.add(key); print(r['status'], d, '|', r.get('sourceLocation', {}).get('line'))
        if m.get('messageType') == 'ERROR': print(m)
