#!/usr/bin/env python3
"""tv - differential translation validation (supporting evidence, never counted as a discharged obligation).

The C unit that CBMC verifies (gen/lib.c, generated from /repo's clang AST) is compiled NATIVELY (contracts vanish,
the std models execute) and driven side by side with the REAL library (compiled from the same working tree) on
pseudo-random inputs:
  * every accessor of every header class (generated from the translated signatures): random object bytes, random arguments
    -> same return value, same bytes afterwards;
  * every payload validator and Packet::isValidPacket on random / structured buffers;
  * whole Decoder::decode calls on streams of one endpoint (well-formed, segmented, corrupted, truncated frames);
  * whole Encoder::encode calls on random batches and frame-size configurations (all frames compared);
  * TECMP::Decoder::Decode on random TECMP frames.
A disagreement means the translation (or a model) does not behave like the code that runs: the check is then
INCONCLUSIVE (exit 2, "translator fidelity"), never a violation and never a pass.
"""
import os, re, json, subprocess, hashlib, glob, concurrent.futures, time

SCALAR = {'uint8_t', 'uint16_t', 'uint32_t', 'uint64_t', 'int8_t', 'int16_t', 'int32_t', 'int64_t', 'size_t', 'bool', 'float', 'int', 'unsigned int', 'char'}
HEADER_CLASSES = ('ASAM::CMP::CmpHeader', 'ASAM::CMP::MessageHeader', 'TECMP::CmpHeader')

def cname(q): return re.sub(r'[^A-Za-z0-9_]', '_', q.replace('::', '_'))

def parse_sig(t):
    """'RET (P1, P2) const' -> (ret, [params], is_const)"""
    m = re.match(r'^(.*?)\s*\((.*)\)\s*(const)?\s*(noexcept)?$', t.strip())
    if not m: return None
    ret = m.group(1).strip(); ps = [p.strip() for p in m.group(2).split(',') if p.strip()]
    if ps == ['void']: ps = []
    return ret, ps, bool(m.group(3))

def strip_const(t): return re.sub(r'\bconst\b', '', t).strip()

def is_scalar(t):
    t = strip_const(t)
    if '*' in t or '&' in t or '<' in t: return False
    return t in SCALAR or '::' in t      # nested enum types of the library

def select_accessors(rep):
    out = []
    for c, v in sorted(rep['cnames'].items()):
        q = v.get('q', ''); t = v.get('type', '')
        if not v.get('has_body') or '::' not in q or '(generated' in q or '(std model' in q: continue
        cls, meth = q.rsplit('::', 1)
        if not (cls.endswith('::Header') or cls in HEADER_CLASSES): continue
        if meth == cls.rsplit('::', 1)[-1] or meth.startswith('operator') or meth.startswith('~'): continue
        sig = parse_sig(t)
        if not sig: continue
        ret, ps, _ = sig
        if len(ps) > 2 or not all(is_scalar(p) for p in ps): continue
        if ret != 'void' and not is_scalar(ret): continue
        out.append({'c': c, 'cls': cls, 'meth': meth, 'ret': strip_const(ret), 'ps': [strip_const(p) for p in ps]})
    return out

def select_validators(rep):
    out = []
    for c, v in sorted(rep['cnames'].items()):
        q = v.get('q', '')
        if v.get('has_body') and (q.endswith('::isValidPayload') or q == 'ASAM::CMP::Packet::isValidPacket') and re.match(r'^bool \(const uint8_t \*, (const )?size_t\)', v.get('type', '')):
            out.append({'c': c, 'q': q})
    return out

def ctype(t):
    t = strip_const(t)
    if t == 'bool': return '_Bool'
    if '::' in t: return cname(t)
    return t

def gen_sources(rep, outdir, gen):
    acc = select_accessors(rep); val = select_validators(rep)
    # ---------------- C side
    C = ['#define VERIF_NATIVE 1', '#include <stdio.h>', '#include "%s/lib.c"' % gen, '#include "tv.h"',
         'struct str str_from_int(int64_t v) { char *b = (char *)malloc(24); int n = snprintf(b, 24, "%ld", (long)v); struct str s; s.p = b; s.n = (size_t)n; return s; }',
         'static struct str tv_fmt(const char *f, unsigned a, unsigned b, int c) { char *x = (char *)malloc(32); int n = c >= 0 ? snprintf(x, 32, f, a, b, (unsigned)c) : snprintf(x, 32, f, a, b); struct str s; s.p = x; s.n = (size_t)n; return s; }',
         '/* the two formatters the translation excludes (std::stringstream): re-stated here for linking only; they are ASSUMED in the proofs */',
         'struct str TECMP_CaptureModulePayload_getSwVersion(const struct TECMP_CaptureModulePayload *this) { return tv_fmt("v%u.%u.%u", TECMP_CaptureModulePayload_getSwVersionMajor(this), TECMP_CaptureModulePayload_getSwVersionMinor(this), TECMP_CaptureModulePayload_getSwVersionPatch(this)); }',
         'struct str TECMP_CaptureModulePayload_getHwVersion(const struct TECMP_CaptureModulePayload *this) { return tv_fmt("v%u.%u", TECMP_CaptureModulePayload_getHwVersionMajor(this), TECMP_CaptureModulePayload_getHwVersionMinor(this), -1); }',
         '_Bool nondet_bool(void) { return 0; } size_t nondet_size_t(void) { return 0; } uint8_t nondet_u8(void) { return 0; }',
         'static uint64_t f2u(float f) { uint32_t u; memcpy(&u, &f, 4); return u; } static float u2f(uint64_t x) { uint32_t u = (uint32_t)x; float f; memcpy(&f, &u, 4); return f; }',
         'size_t tvc_objsize(int id) { switch (id) {']
    for i, a in enumerate(acc): C.append(f'  case {i}: return sizeof(struct {cname(a["cls"])});')
    C += ['  } return 0; }', 'uint64_t tvc_acc(int id, uint8_t *obj, uint64_t a0, uint64_t a1) { (void)a0; (void)a1; switch (id) {']
    def carg(t, k):
        if t == 'float': return f'u2f(a{k})'
        if t == 'bool': return f'(_Bool)(a{k} & 1)'
        return f'({ctype(t)})a{k}'
    for i, a in enumerate(acc):
        args = ', '.join(['&o'] + [carg(t, k) for k, t in enumerate(a['ps'])])
        call = f'{a["c"]}({args})'
        if a['ret'] == 'void': body = f'{call}; r = 0;'
        elif a['ret'] == 'float': body = f'r = f2u({call});'
        else: body = f'r = (uint64_t)({call});'
        C.append(f'  case {i}: {{ struct {cname(a["cls"])} o; uint64_t r; memcpy(&o, obj, sizeof o); {body} memcpy(obj, &o, sizeof o); return r; }}')
    C += ['  } return 0; }', 'int tvc_valid(int id, const uint8_t *d, size_t n) { switch (id) {']
    for i, v in enumerate(val): C.append(f'  case {i}: return {v["c"]}(d, n) ? 1 : 0;')
    C += ['  } return -1; }', C_GLUE]
    open(os.path.join(outdir, 'tv_c.c'), 'w').write('\n'.join(C) + '\n')
    # ---------------- C++ side (the real library)
    X = ['#include <cstring>', '#include <cstdint>', '#include <vector>', '#include <memory>', '#include <asam_cmp/decoder.h>', '#include <asam_cmp/encoder.h>', '#include <asam_cmp/status.h>',
         '#include <asam_cmp/can_payload.h>', '#include <asam_cmp/can_fd_payload.h>', '#include <asam_cmp/lin_payload.h>', '#include <asam_cmp/ethernet_payload.h>', '#include <asam_cmp/analog_payload.h>',
         '#include <asam_cmp/capture_module_payload.h>', '#include <asam_cmp/interface_payload.h>', '#include <asam_cmp/tecmp_decoder.h>', '#include <asam_cmp/tecmp_header.h>',
         '#include <asam_cmp/tecmp_can_payload.h>', '#include <asam_cmp/tecmp_lin_payload.h>', '#include <asam_cmp/tecmp_interface_payload.h>', '#include <asam_cmp/tecmp_capture_module_payload.h>',
         'extern "C" {', '#include "tv.h"', '}',
         'static uint64_t f2u(float f) { uint32_t u; memcpy(&u, &f, 4); return u; } static float u2f(uint64_t x) { uint32_t u = (uint32_t)x; float f; memcpy(&f, &u, 4); return f; }',
         'extern "C" size_t tvx_objsize(int id) { switch (id) {']
    for i, a in enumerate(acc): X.append(f'  case {i}: return sizeof({a["cls"]});')
    X += ['  } return 0; }', 'extern "C" uint64_t tvx_acc(int id, uint8_t *obj, uint64_t a0, uint64_t a1) { (void)a0; (void)a1; switch (id) {']
    def xarg(t, k):
        if t == 'float': return f'u2f(a{k})'
        if t == 'bool': return f'(bool)(a{k} & 1)'
        return f'static_cast<{t}>(a{k})'
    for i, a in enumerate(acc):
        args = ', '.join(xarg(t, k) for k, t in enumerate(a['ps']))
        call = f'o->{a["meth"]}({args})'
        if a['ret'] == 'void': body = f'{call}; r = 0;'
        elif a['ret'] == 'float': body = f'r = f2u({call});'
        else: body = f'r = (uint64_t)({call});'
        X.append(f'  case {i}: {{ alignas(8) uint8_t buf[sizeof({a["cls"]})]; memcpy(buf, obj, sizeof buf); auto *o = reinterpret_cast<{a["cls"]} *>(buf); uint64_t r; {body} memcpy(obj, buf, sizeof buf); return r; }}')
    X += ['  } return 0; }', 'extern "C" int tvx_valid(int id, const uint8_t *d, size_t n) { switch (id) {']
    for i, v in enumerate(val): X.append(f'  case {i}: return {v["q"]}(d, n) ? 1 : 0;')
    X += ['  } return -1; }', X_GLUE]
    open(os.path.join(outdir, 'tv_x.cpp'), 'w').write('\n'.join(X) + '\n')
    open(os.path.join(outdir, 'tv.h'), 'w').write(TV_H)
    names = ['%s::%s' % (a['cls'], a['meth']) for a in acc]
    M = MAIN.replace('@NACC@', str(len(acc))).replace('@NVAL@', str(len(val))).replace('@ACCNAMES@', ', '.join('"%s"' % n for n in names) or '""').replace('@VALNAMES@', ', '.join('"%s"' % v['q'] for v in val) or '""')
    open(os.path.join(outdir, 'tv_main.cpp'), 'w').write(M)
    return acc, val

TV_H = r'''
#ifndef TV_H
#define TV_H
#include <stdint.h>
#include <stddef.h>
/* a packet, flattened (what a user can observe through the public getters) */
struct tv_pkt { uint8_t version; uint16_t deviceId; uint8_t streamId; uint16_t seq; uint64_t ts; uint32_t ifId; uint16_t vendorId; uint8_t flags; uint8_t segType;
                int has_payload; uint32_t ptype; size_t len; uint8_t *bytes; };
struct tv_frame { size_t n; uint8_t *d; };
size_t tvc_objsize(int id); uint64_t tvc_acc(int id, uint8_t *obj, uint64_t a0, uint64_t a1); int tvc_valid(int id, const uint8_t *d, size_t n);
size_t tvx_objsize(int id); uint64_t tvx_acc(int id, uint8_t *obj, uint64_t a0, uint64_t a1); int tvx_valid(int id, const uint8_t *d, size_t n);
void *tvc_decoder_new(uint16_t dev, uint8_t stream); size_t tvc_decode(void *dec, const uint8_t *d, size_t n, struct tv_pkt *out, size_t cap); size_t tvc_pending(void *dec);
void *tvx_decoder_new(uint16_t dev, uint8_t stream); size_t tvx_decode(void *dec, const uint8_t *d, size_t n, struct tv_pkt *out, size_t cap); size_t tvx_pending(void *dec);
size_t tvc_tecmp(const uint8_t *d, size_t n, struct tv_pkt *out, size_t cap); size_t tvx_tecmp(const uint8_t *d, size_t n, struct tv_pkt *out, size_t cap);
void *tvc_encoder_new(uint16_t dev, uint8_t stream); void *tvx_encoder_new(uint16_t dev, uint8_t stream);
size_t tvc_encode(void *enc, const struct tv_pkt *in, size_t n, size_t minb, size_t maxb, struct tv_frame *out, size_t cap, uint16_t *seq);
size_t tvx_encode(void *enc, const struct tv_pkt *in, size_t n, size_t minb, size_t maxb, struct tv_frame *out, size_t cap, uint16_t *seq);
#endif
'''

C_GLUE = r'''
static void flat(const struct ASAM_CMP_Packet *p, struct tv_pkt *o) {
  o->version = p->version; o->deviceId = p->deviceId; o->streamId = p->streamId; o->seq = p->sequenceCounter; o->ts = p->timestamp; o->ifId = p->interfaceId;
  o->vendorId = p->vendorId; o->flags = p->commonFlags; o->segType = (uint8_t)p->segmentType; o->has_payload = p->payload != 0;
  o->ptype = p->payload ? p->payload->type.type : 0; o->len = p->payload ? p->payload->payloadData.n : 0; o->bytes = p->payload ? p->payload->payloadData.d : 0; }
void *tvc_decoder_new(uint16_t dev, uint8_t stream) { struct ASAM_CMP_Decoder *d = (struct ASAM_CMP_Decoder *)calloc(1, sizeof *d); d->segmentedPackets.key.deviceId = dev; d->segmentedPackets.key.streamId = stream; return d; }
size_t tvc_decode(void *dec, const uint8_t *d, size_t n, struct tv_pkt *out, size_t cap) {
  struct vec_p_ASAM_CMP_Packet r = ASAM_CMP_Decoder_decode((struct ASAM_CMP_Decoder *)dec, d, n);
  for (size_t i = 0; i < r.n && i < cap; ++i) flat(r.d[i], &out[i]);
  return r.n; }
size_t tvc_pending(void *dec) { struct ASAM_CMP_Decoder *d = (struct ASAM_CMP_Decoder *)dec; return d->segmentedPackets.present ? 1 + d->segmentedPackets.value.payload.n : 0; }
size_t tvc_tecmp(const uint8_t *d, size_t n, struct tv_pkt *out, size_t cap) {
  struct vec_p_ASAM_CMP_Packet r = TECMP_Decoder_Decode(d, n);
  for (size_t i = 0; i < r.n && i < cap; ++i) flat(r.d[i], &out[i]);
  return r.n; }
/* frames: the model materialises only the last frame of Encoder::cmpFrames; the native twin of push_back archives the frame it replaces */
static struct tv_frame *arch; static size_t arch_n, arch_cap;
static void archive(const struct vec_u8 *b) { if (arch_n < arch_cap) { arch[arch_n].n = b->n; arch[arch_n].d = (uint8_t *)malloc(b->n ? b->n : 1); memcpy(arch[arch_n].d, b->d, b->n); } arch_n++; }
void tv_frames_hook(const struct vec_frames *f) { if (f->n > 0) archive(&f->back); }
void *tvc_encoder_new(uint16_t dev, uint8_t stream) { struct ASAM_CMP_Encoder *e = (struct ASAM_CMP_Encoder *)calloc(1, sizeof *e); e->cmpFrames = vec_frames_make_empty(); e->cmpFrameTemplate = vec_u8_make_empty();
  ASAM_CMP_Encoder_setDeviceId(e, dev); ASAM_CMP_Encoder_setStreamId(e, stream); return e; }
size_t tvc_encode(void *enc, const struct tv_pkt *in, size_t n, size_t minb, size_t maxb, struct tv_frame *out, size_t cap, uint16_t *seq) {
  struct ASAM_CMP_Encoder *e = (struct ASAM_CMP_Encoder *)enc;
  struct ASAM_CMP_Packet *ps = (struct ASAM_CMP_Packet *)calloc(n + 1, sizeof *ps);
  for (size_t i = 0; i < n; ++i) { struct ASAM_CMP_Packet *p = &ps[i]; const struct tv_pkt *s = &in[i];
    p->version = s->version; p->deviceId = s->deviceId; p->streamId = s->streamId; p->sequenceCounter = s->seq; p->timestamp = s->ts; p->interfaceId = s->ifId; p->vendorId = s->vendorId;
    p->commonFlags = s->flags; p->segmentType = s->segType;
    struct ASAM_CMP_PayloadType t; t.type = s->ptype; p->payload = ASAM_CMP_Payload_new__PayloadType_uint8_t_P_size_t(t, s->bytes, s->len); }
  struct ASAM_CMP_DataContext c; c.minBytesPerMessage = minb; c.maxBytesPerMessage = maxb;
  arch = out; arch_n = 0; arch_cap = cap;
  for (size_t i = 0; i < cap; ++i) out[i].d = 0;
  struct vec_frames r = ASAM_CMP_Encoder_encode__T_Packet_P(e, ps, ps + n, &c);
  *seq = ASAM_CMP_Encoder_getSequenceCounter(e);
#ifdef VERIF_FRAMES_HOOK
  if (r.n > 0) archive(&r.back);
  return r.n == arch_n ? r.n : (size_t)-1;
#else
  /* without the archive hook in the frame-list model only the last frame is observable */
  if (r.n > 0 && r.n <= cap) { arch_n = r.n - 1; archive(&r.back); }
  return r.n;
#endif
}
'''

X_GLUE = r'''
using namespace ASAM::CMP;
static void flat(const Packet &p, tv_pkt *o) {
  o->version = p.getVersion(); o->deviceId = p.getDeviceId(); o->streamId = p.getStreamId(); o->seq = p.getSequenceCounter(); o->ts = p.getTimestamp(); o->ifId = p.getInterfaceId();
  o->vendorId = p.getVendorId(); o->flags = p.getCommonFlags(); o->segType = (uint8_t)p.getSegmentType(); o->has_payload = p.payload != nullptr;
  o->ptype = p.payload ? p.payload->getType().getType() : 0; o->len = p.payload ? p.payload->payloadData.size() : 0;
  o->bytes = nullptr; if (p.payload) { o->bytes = (uint8_t *)malloc(o->len ? o->len : 1); memcpy(o->bytes, p.payload->payloadData.data(), o->len); } }
extern "C" void *tvx_decoder_new(uint16_t, uint8_t) { return new Decoder(); }
extern "C" size_t tvx_decode(void *dec, const uint8_t *d, size_t n, tv_pkt *out, size_t cap) {
  auto r = static_cast<Decoder *>(dec)->decode(d, n);
  for (size_t i = 0; i < r.size() && i < cap; ++i) flat(*r[i], &out[i]);
  return r.size(); }
extern "C" size_t tvx_pending(void *dec) { auto *d = static_cast<Decoder *>(dec); size_t s = 0; for (auto &kv : d->segmentedPackets) s += 1 + kv.second.payload.size(); return s; }
extern "C" size_t tvx_tecmp(const uint8_t *d, size_t n, tv_pkt *out, size_t cap) {
  auto r = TECMP::Decoder::Decode(d, n);
  for (size_t i = 0; i < r.size() && i < cap; ++i) flat(*r[i], &out[i]);
  return r.size(); }
extern "C" void *tvx_encoder_new(uint16_t dev, uint8_t stream) { auto *e = new Encoder(); e->setDeviceId(dev); e->setStreamId(stream); return e; }
extern "C" size_t tvx_encode(void *enc, const tv_pkt *in, size_t n, size_t minb, size_t maxb, tv_frame *out, size_t cap, uint16_t *seq) {
  auto *e = static_cast<Encoder *>(enc);
  std::vector<Packet> ps(n);
  for (size_t i = 0; i < n; ++i) { Packet &p = ps[i]; const tv_pkt &s = in[i];
    p.setVersion(s.version); p.setDeviceId(s.deviceId); p.setStreamId(s.streamId); p.setSequenceCounter(s.seq); p.setTimestamp(s.ts); p.setInterfaceId(s.ifId); p.setVendorId(s.vendorId);
    p.setCommonFlags(s.flags); p.setSegmentType(static_cast<MessageHeader::SegmentType>(s.segType));
    p.setPayload(Payload(PayloadType(s.ptype), s.bytes, s.len)); }
  DataContext c{minb, maxb};
  auto r = e->encode(ps.data(), ps.data() + n, c);
  for (size_t i = 0; i < r.size() && i < cap; ++i) { out[i].n = r[i].size(); out[i].d = (uint8_t *)malloc(r[i].size() ? r[i].size() : 1); memcpy(out[i].d, r[i].data(), r[i].size()); }
  *seq = e->getSequenceCounter();
  return r.size(); }
'''

MAIN = r'''
#include <cstdio>
#include <cstdlib>
#include <cstring>
#include <cstdint>
#include <vector>
#include <string>
extern "C" {
#include "tv.h"
}
static uint64_t S;
static uint64_t rnd() { S ^= S << 13; S ^= S >> 7; S ^= S << 17; return S; }
static uint64_t rv() { switch (rnd() % 6) { case 0: return 0; case 1: return ~0ull; case 2: return rnd() & 0xff; case 3: return rnd() & 0xffff; default: return rnd(); } }
static const char *ACC[] = { @ACCNAMES@ }; static const char *VAL[] = { @VALNAMES@ };
static long evals = 0, bad = 0, st_valid = 0, st_dec_pkts = 0, st_dec_reasm = 0, st_tecmp_pkts = 0, st_enc_frames = 0, st_enc_seg = 0; static std::string first;
static void fail(const std::string &w) { if (!bad) first = w; bad++; if (bad <= 5) fprintf(stderr, "DISAGREE %s\n", w.c_str()); }
static bool same(const tv_pkt &a, const tv_pkt &b) {
  return a.version == b.version && a.deviceId == b.deviceId && a.streamId == b.streamId && a.seq == b.seq && a.ts == b.ts && a.ifId == b.ifId && a.vendorId == b.vendorId && a.flags == b.flags &&
         a.segType == b.segType && a.has_payload == b.has_payload && a.ptype == b.ptype && a.len == b.len && (a.len == 0 || memcmp(a.bytes, b.bytes, a.len) == 0); }
static void put16(std::vector<uint8_t> &v, size_t o, uint16_t x) { v[o] = x >> 8; v[o + 1] = x & 0xff; }
/* one CMP message (16-byte header + payload) with a payload that is structurally plausible for its type */
static void message(std::vector<uint8_t> &f, uint8_t seg, uint8_t ptype, size_t plen) {
  size_t o = f.size(); f.resize(o + 16 + plen);
  for (size_t i = 0; i < 16 + plen; ++i) f[o + i] = (uint8_t)rnd();
  f[o + 12] = (uint8_t)((rnd() & 0x33) | (seg << 2)); if (rnd() % 16 == 0) f[o + 12] |= 0x40;
  f[o + 13] = ptype; put16(f, o + 14, (uint16_t)plen);
  uint8_t *p = &f[o + 16];
  if (rnd() % 4) {   /* mostly consistent inner structure */
    if ((ptype == 1 || ptype == 2) && plen >= 16) { p[0] = 0; p[1] = (rnd() % 8) ? 0 : (uint8_t)rnd(); p[12] = p[13] = 0; p[15] = (uint8_t)(plen - 16 < 255 ? plen - 16 : 255); }
    if (ptype == 3 && plen >= 8) p[7] = (uint8_t)(plen - 8 < 255 ? plen - 8 : 255);
    if (ptype == 8 && plen >= 6) { p[0] = 0; p[1] = (rnd() % 8) ? 0 : (uint8_t)rnd(); p[4] = (uint8_t)((plen - 6) >> 8); p[5] = (uint8_t)(plen - 6); }
    if (ptype == 7 && plen >= 16) { p[0] = 0; p[1] = rnd() & 1; } } }
int main(int argc, char **argv) {
  S = 0x9E3779B97F4A7C15ull ^ (argc > 1 ? strtoull(argv[1], 0, 10) * 0x100000001B3ull : 0); if (!S) S = 1;
  long N = argc > 2 ? atol(argv[2]) : 200;
  const int NACC = @NACC@, NVAL = @NVAL@;
  /* ---- accessors */
  for (int id = 0; id < NACC; ++id) {
    size_t sc = tvc_objsize(id), sx = tvx_objsize(id);
    if (sc != sx || sc == 0 || sc > 256) { fail(std::string("sizeof ") + ACC[id]); continue; }
    for (long it = 0; it < N; ++it) {
      uint8_t a[256], b[256]; for (size_t i = 0; i < sc; ++i) a[i] = b[i] = (it % 5 == 0) ? 0 : (it % 5 == 1) ? 0xff : (uint8_t)rnd();
      uint64_t x = rv(), y = rv();
      uint64_t rc = tvc_acc(id, a, x, y), rx = tvx_acc(id, b, x, y); evals++;
      if (rc != rx || memcmp(a, b, sc)) { char t[200]; snprintf(t, sizeof t, "accessor %s args %llx %llx: ret %llx vs %llx", ACC[id], (unsigned long long)x, (unsigned long long)y, (unsigned long long)rc, (unsigned long long)rx); fail(t); break; } } }
  /* ---- validators */
  for (int id = 0; id < NVAL; ++id)
    for (long it = 0; it < N * 20; ++it) {
      size_t n = rnd() % 3 ? rnd() % 64 : rnd() % 600; std::vector<uint8_t> d(n + 1);
      for (size_t i = 0; i < n; ++i) d[i] = (rnd() % 3 == 0) ? 0 : (rnd() % 3 == 0 ? (uint8_t)(rnd() % (n + 2)) : (uint8_t)rnd());
      int c = tvc_valid(id, d.data(), n), x = tvx_valid(id, d.data(), n); evals++; st_valid += (x == 1);
      if (c != x) { fail(std::string("validator ") + VAL[id] + " size " + std::to_string(n)); break; } }
  /* ---- decode: streams of one endpoint */
  for (long s = 0; s < N / 4 + 1; ++s) {
    uint16_t dev = (uint16_t)rv(); uint8_t st = (uint8_t)rv(); void *dc = tvc_decoder_new(dev, st), *dx = tvx_decoder_new(dev, st);
    uint16_t seq = (rnd() % 3 == 0) ? (uint16_t)(65530 + rnd() % 6) : (uint16_t)rv(); int inseg = 0; int lastseg = 0;     /* a third of the streams cross the 16-bit counter wrap */
    for (int fno = 0; fno < 40; ++fno) {
      std::vector<uint8_t> f(8); f[0] = (rnd() % 16) ? 1 : (uint8_t)rnd(); f[1] = 0; put16(f, 2, dev); f[4] = (rnd() % 8) ? 1 : (uint8_t)(rnd() % 5); f[5] = st; put16(f, 6, seq); seq += (rnd() % 10) ? 1 : (uint16_t)rnd();
      static const uint8_t T[] = {1, 2, 3, 7, 8, 1, 2, 0, 0xff, 9}; int nm = 1 + rnd() % 4;
      if (f[4] == 3) { for (int m = 0; m < nm; ++m) message(f, 0, 1 + rnd() % 2, 26 + rnd() % 60); }
      else if (inseg || rnd() % 4 == 0) { uint8_t sg = inseg ? (rnd() % 3 ? 2 : 3) : 1; if (rnd() % 12 == 0) sg = (uint8_t)(rnd() % 4); message(f, sg, 8, rnd() % 200); lastseg = (sg == 3); inseg = (sg == 1 || sg == 2); if (rnd() % 3 == 0) for (int k = rnd() % 20; k > 0; --k) f.push_back((uint8_t)rnd()); }
      else for (int m = 0; m < nm; ++m) message(f, 0, T[rnd() % 10], rnd() % 3 ? 16 + rnd() % 80 : rnd() % 20);
      if (rnd() % 8 == 0) f.resize(rnd() % (f.size() + 1)); if (rnd() % 8 == 0 && !f.empty()) { size_t at = rnd() % f.size(); if (at != 2 && at != 3 && at != 5) f[at] ^= (uint8_t)(1u << (rnd() % 8)); }   /* the endpoint stays fixed: the map model observes one endpoint */ if (rnd() % 10 == 0) f.resize(f.size() + rnd() % 24, 0);
      if (f.size() >= 6) { put16(f, 2, dev); f[5] = st; }     /* every frame of the stream belongs to the observed endpoint */
      tv_pkt pc[64], px[64]; size_t nc = tvc_decode(dc, f.data(), f.size(), pc, 64), nx = tvx_decode(dx, f.data(), f.size(), px, 64); evals++;
      bool ok = nc == nx && tvc_pending(dc) == tvx_pending(dx); st_dec_pkts += (long)nx; if (lastseg && nx > 0) st_dec_reasm++; lastseg = 0;
      for (size_t i = 0; ok && i < nc && i < 64; ++i) ok = same(pc[i], px[i]);
      if (!ok) { std::string hex; char t[4]; for (size_t i = 0; i < f.size() && i < 64; ++i) { snprintf(t, 4, "%02x", f[i]); hex += t; }
        fail("decode: stream " + std::to_string(s) + " frame " + std::to_string(fno) + " packets " + std::to_string(nc) + " vs " + std::to_string(nx) + " pending " + std::to_string(tvc_pending(dc)) + " vs " + std::to_string(tvx_pending(dx)) + " size " + std::to_string(f.size()) + " frame " + hex); break; } } }
  /* ---- TECMP decode */
  for (long it = 0; it < N * 10; ++it) {
    size_t pl = rnd() % 4 ? rnd() % 80 : rnd() % 400; std::vector<uint8_t> f(28 + pl); for (auto &b : f) b = (uint8_t)rnd();
    f[0] = (rnd() % 10) ? 0 : (uint8_t)rnd(); static const uint8_t MT[] = {1, 2, 3, 3, 3, 0, 4, 10}; f[5] = (rnd() % 10) ? MT[rnd() % 8] : (uint8_t)rnd();
    static const uint16_t DT[] = {2, 3, 4, 2, 3, 4, 8, 0x10, 0x20, 0x80}; put16(f, 6, (rnd() % 10) ? DT[rnd() % 10] : (uint16_t)rnd()); put16(f, 24, (rnd() % 6) ? (uint16_t)pl : (uint16_t)rv());
    if (pl >= 6 && rnd() % 3) { if (f[5] == 3) { f[28 + 4] = (uint8_t)(rnd() % (pl)); f[28 + 1] = (uint8_t)(rnd() % pl); } else { f[28 + 4] = 0; f[28 + 5] = (rnd() % 4) ? 0 : (uint8_t)rnd(); } }
    if (rnd() % 10 == 0) f.resize(rnd() % (f.size() + 1));
    tv_pkt pc[64], px[64]; size_t nc = tvc_tecmp(f.data(), f.size(), pc, 64), nx = tvx_tecmp(f.data(), f.size(), px, 64); evals++;
    st_tecmp_pkts += (long)nx; bool ok = nc == nx; for (size_t i = 0; ok && i < nc && i < 64; ++i) ok = same(pc[i], px[i]);
    if (!ok) { fail("tecmp: message type " + std::to_string(f.size() > 5 ? f[5] : -1) + " size " + std::to_string(f.size()) + " packets " + std::to_string(nc) + " vs " + std::to_string(nx)); break; } }
  /* ---- encode: histories of batches on one encoder */
  for (long s = 0; s < N / 4 + 1; ++s) {
    uint16_t dev = (uint16_t)rv(); uint8_t st = (uint8_t)rv(); void *ec = tvc_encoder_new(dev, st), *ex = tvx_encoder_new(dev, st);
    for (int call = 0; call < 4; ++call) {
      size_t maxb = rnd() % 3 ? 25 + rnd() % 200 : 25 + rnd() % 1500, minb = rnd() % 2 ? 0 : rnd() % (maxb + 1); size_t n = rnd() % 5; uint8_t ver = 1 + rnd() % 3;
      std::vector<tv_pkt> in(n); std::vector<std::vector<uint8_t>> data(n);
      for (size_t i = 0; i < n; ++i) { tv_pkt &p = in[i]; memset(&p, 0, sizeof p); p.version = ver; p.deviceId = (uint16_t)rv(); p.streamId = (uint8_t)rv(); p.seq = (uint16_t)rv(); p.ts = rv(); p.ifId = (uint32_t)rv(); p.vendorId = (uint16_t)rv();
        p.flags = (uint8_t)(rnd() & 0x33); static const uint16_t PT[] = {0x0101, 0x0102, 0x0103, 0x0107, 0x0108, 0x01ff, 0x0301, 0x0302, 0xff01, 0x0201}; p.ptype = (rnd() % 3) ? PT[0] : PT[rnd() % 10];
        size_t len = rnd() % 3 ? 1 + rnd() % 120 : 1 + rnd() % 3000; data[i].resize(len); for (auto &b : data[i]) b = (uint8_t)rnd(); p.len = len; p.bytes = data[i].data(); p.has_payload = 1; }
      std::vector<tv_frame> fc(4096), fx(4096); uint16_t qc = 0, qx = 0;
      size_t nc = tvc_encode(ec, in.data(), n, minb, maxb, fc.data(), 4096, &qc), nx = tvx_encode(ex, in.data(), n, minb, maxb, fx.data(), 4096, &qx); evals++;
      st_enc_frames += (long)nx; for (size_t i = 0; i < nx && i < 4096; ++i) st_enc_seg += (fx[i].n > 20 && (fx[i].d[20] & 0x0c) != 0); bool ok = nc == nx && qc == qx; for (size_t i = 0; ok && i < nc && i < 4096; ++i) ok = fc[i].d == 0 || (fc[i].n == fx[i].n && memcmp(fc[i].d, fx[i].d, fc[i].n) == 0);
      if (!ok) { fail("encode: history " + std::to_string(s) + " call " + std::to_string(call) + " max " + std::to_string(maxb) + " min " + std::to_string(minb) + " frames " + std::to_string((long)nc) + " vs " + std::to_string(nx)); break; } } }
  printf("{\"programs\": %d, \"evaluations\": %ld, \"disagreements\": %ld, \"first\": \"%s\", \"validator_accepts\": %ld, \"decoded_packets\": %ld, \"reassembled_packets\": %ld, \"tecmp_packets\": %ld, \"encoded_frames\": %ld, \"segment_frames\": %ld}\n", NACC + NVAL + 3, evals, bad, first.c_str(), st_valid, st_dec_pkts, st_dec_reasm, st_tecmp_pkts, st_enc_frames, st_enc_seg);
  return bad ? 1 : 0; }
'''

def run(gen, repo, work, seed=0, n=200, cache_dir=None, log=lambda *a: None):
    """returns dict(status ok|disagree|error, programs, evaluations, disagreements, detail, wall_s, reused)"""
    t0 = time.time()
    rep = json.load(open(os.path.join(gen, 'report.json')))
    hsh = hashlib.sha256()
    for f in sorted(glob.glob(os.path.join(gen, '*.[ch]'))) + sorted(glob.glob(os.path.join(repo, 'src', '*.cpp'))) + sorted(glob.glob(os.path.join(repo, 'include', 'asam_cmp', '*.h'))) + [__file__]:
        hsh.update(os.path.basename(f).encode()); hsh.update(open(f, 'rb').read())
    hsh.update(f"{seed}/{n}".encode())
    key = hsh.hexdigest()
    if cache_dir and os.environ.get('VERIF_NOCACHE') != '1':
        cp = os.path.join(cache_dir, 'tv-' + key + '.json')
        if os.path.exists(cp):
            r = json.load(open(cp)); r['reused'] = True; return r
    d = os.path.join(work, 'tv'); os.makedirs(d, exist_ok=True)
    try:
        acc, val = gen_sources(rep, d, gen)
    except Exception as ex:
        return {'status': 'error', 'detail': 'generation: ' + repr(ex)}
    inc = os.path.join(repo, 'include')
    jobs = [['gcc', '-std=gnu11', '-O1', '-w', '-DVERIF_FRAMES_HOOK', '-I' + gen, '-I' + d, '-c', os.path.join(d, 'tv_c.c'), '-o', os.path.join(d, 'tv_c.o')],
            ['g++', '-std=c++17', '-O1', '-w', '-fno-access-control', '-I' + inc, '-I' + d, '-c', os.path.join(d, 'tv_x.cpp'), '-o', os.path.join(d, 'tv_x.o')],
            ['g++', '-std=c++17', '-O1', '-w', '-I' + d, '-c', os.path.join(d, 'tv_main.cpp'), '-o', os.path.join(d, 'tv_main.o')]]
    objs = [j[-1] for j in jobs]
    for s in sorted(glob.glob(os.path.join(repo, 'src', '*.cpp'))):
        o = os.path.join(d, 'lib_' + os.path.basename(s)[:-4] + '.o'); objs.append(o)
        jobs.append(['g++', '-std=c++17', '-O1', '-w', '-I' + inc, '-c', s, '-o', o])
    def one(c):
        p = subprocess.run(c, stdout=subprocess.PIPE, stderr=subprocess.STDOUT)
        return p.returncode, ' '.join(c[:3]) + ' ... ' + c[-3] + ': ' + p.stdout.decode('utf8', 'replace')[-1500:]
    with concurrent.futures.ThreadPoolExecutor(max_workers=16) as ex:
        res = list(ex.map(one, jobs))
    for rc, msg in res:
        if rc != 0: return {'status': 'error', 'detail': 'compile: ' + msg}
    exe = os.path.join(d, 'tv')
    p = subprocess.run(['g++', '-o', exe] + objs, stdout=subprocess.PIPE, stderr=subprocess.STDOUT)
    if p.returncode != 0: return {'status': 'error', 'detail': 'link: ' + p.stdout.decode('utf8', 'replace')[-1500:]}
    try:
        p = subprocess.run([exe, str(seed), str(n)], stdout=subprocess.PIPE, stderr=subprocess.PIPE, timeout=600)
    except subprocess.TimeoutExpired:
        return {'status': 'error', 'detail': 'driver timeout'}
    out = p.stdout.decode('utf8', 'replace').strip().split('\n')[-1] if p.stdout else ''
    try: j = json.loads(out)
    except Exception:
        return {'status': 'error', 'detail': f"driver rc={p.returncode}: " + (p.stderr.decode('utf8', 'replace') + out)[-800:]}
    r = {'status': 'ok' if (p.returncode == 0 and j['disagreements'] == 0) else 'disagree', 'programs': j['programs'], 'evaluations': j['evaluations'], 'disagreements': j['disagreements'],
         'detail': j.get('first', '') or p.stderr.decode('utf8', 'replace')[-400:], 'accessors': len(acc), 'validators': len(val), 'whole_calls': ['Decoder::decode', 'TECMP::Decoder::Decode', 'Encoder::encode<const Packet*>'],
         'inputs_exercised': {k: j.get(k) for k in ('validator_accepts', 'decoded_packets', 'reassembled_packets', 'tecmp_packets', 'encoded_frames', 'segment_frames')}, 'seed': seed, 'iterations': n, 'wall_s': round(time.time() - t0, 1), 'reused': False}
    if cache_dir and r['status'] == 'ok':
        os.makedirs(cache_dir, exist_ok=True); json.dump(r, open(os.path.join(cache_dir, 'tv-' + key + '.json'), 'w'))
    return r

if __name__ == '__main__':
    import sys
    print(json.dumps(run(sys.argv[1], sys.argv[2], sys.argv[3], int(sys.argv[4]) if len(sys.argv) > 4 else 0, int(sys.argv[5]) if len(sys.argv) > 5 else 200), indent=1))
