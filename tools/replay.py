"""Counterexample extraction and native replay.

For a failed obligation the harness is re-run with `--trace --property <obligation>`; the trace is
reduced to harness inputs (scalar arguments, initial bytes of every is_fresh object).  A family-specific
native driver (C++, built against a library compiled from /repo's working tree with ASan+UBSan and
-fno-access-control in the driver TU) reconstructs the objects, runs the same call and the oracle decides.
Verdicts: reproduced / not-reproduced / no-driver / no-counterexample.
"""
import os, re, json, subprocess, glob, threading, hashlib, shutil, sys, time

_lock = threading.Lock()

def run(cmd, cwd=None, timeout=600, out=None):
    fo = open(out, 'wb') if out else subprocess.PIPE
    try:
        p = subprocess.run(cmd, cwd=cwd, stdout=fo, stderr=subprocess.PIPE if out else subprocess.STDOUT, timeout=timeout)
        return p.returncode, (p.stdout or b'').decode('utf8', 'replace') if not out else ''
    except subprocess.TimeoutExpired:
        return 'timeout', ''
    finally:
        if out: fo.close()

# ----------------------------------------------------------------------------- trace -> inputs

def trace_inputs(d, gb, prop, object_bits, extra_flags, entry, cex_defs=None):
    outj = os.path.join(d, 'trace.json')
    cmd = ['cbmc', gb, '--property', prop, '--trace', '--json-ui'] + extra_flags
    if '--object-bits' not in extra_flags: cmd += ['--object-bits', str(object_bits)]
    rc, _ = run(cmd, cwd=d, timeout=300, out=outj)
    if rc == 'timeout': return None
    try: msgs = json.load(open(outj))
    except Exception: return None
    trace = None
    for m in msgs:
        if isinstance(m, dict) and 'result' in m:
            for r in m['result']:
                if r.get('status') == 'FAILURE' and 'trace' in r: trace = r['trace']
    if trace is None: return None
    objs = {}; order = []; args = {}; ghost = {}
    for st in trace:
        if st.get('stepType') != 'assignment': continue
        fn = st.get('sourceLocation', {}).get('function'); lhs = st.get('lhs', ''); v = st.get('value', {})
        m = re.match(r'^(dynamic_object\$\d+)\[(\d+)l?\]$', lhs)
        if m and fn == '__CPROVER_contracts_is_fresh':
            o = m.group(1)
            if o not in objs: objs[o] = {}; order.append(o)
            if int(m.group(2)) not in objs[o]:
                objs[o][int(m.group(2))] = int(v.get('binary', '0') or '0', 2) if 'binary' in v else 0
            continue
        m = re.match(r'^(dynamic_object\$\d+)\.(\w[\w.]*)$', lhs)
        if m and fn == '__CPROVER_contracts_is_fresh':
            o = m.group(1)
            if o not in objs: objs[o] = {}; order.append(o)
            objs[o].setdefault('.' + m.group(2), v.get('data'))
            continue
        if fn == entry and st.get('assignmentType') == 'variable' and re.match(r'^[A-Za-z_]\w*(\.\w+)+$', lhs) and 'binary' in v:
            args.setdefault(lhs, int(v['binary'], 2))
        if fn == entry and st.get('assignmentType') == 'variable' and re.match(r'^[A-Za-z_]\w*$', lhs) and v.get('name') == 'struct':
            for mem in v.get('members', []):
                mv = mem.get('value', {})
                if 'binary' in mv: args.setdefault(lhs + '.' + mem.get('name', ''), int(mv['binary'], 2))
        if fn == entry and st.get('assignmentType') == 'variable' and re.match(r'^[A-Za-z_]\w*$', lhs) and not lhs.startswith(('__', 'return_value_')):
            if 'binary' in v: args.setdefault(lhs, int(v['binary'], 2))
            elif v.get('data') in ('TRUE', 'FALSE'): args.setdefault(lhs, 1 if v['data'] == 'TRUE' else 0)
        if fn is None and re.match(r'^g_\w+$', lhs) and 'binary' in v:
            ghost.setdefault(lhs, int(v['binary'], 2))
    objects = []
    for o in order:
        bs = objs[o]; idx = [k for k in bs if isinstance(k, int)]
        if idx:
            n = max(idx) + 1
            objects.append({'name': o, 'bytes': ''.join('%02x' % bs.get(i, 0) for i in range(n))})
        else:
            objects.append({'name': o, 'fields': {k: v for k, v in bs.items()}})
    return {'args': args, 'objects': objects, 'ghost': ghost}

def counterexample(doc, f, r, work, root, repo):
    d = r.get('dir')
    if not d or not os.path.exists(os.path.join(d, 'b.gb')):
        doc['native'] = 'no-counterexample'; return
    entry = 'verif_' + r['name']
    ob = 10
    flags = []
    cmd = r.get('cmd', '')
    m = re.search(r'--object-bits (\d+)', cmd)
    if m: ob = int(m.group(1))
    inp = None
    fam0 = family_of(r, root)
    if fam0 is not None and getattr(fam0, 'history_search', False):
        # families whose failing input is a HISTORY of calls (status tracker): the verifier's one-step counterexample state is not an API input;
        # the driver searches the small-alphabet histories natively instead
        doc['inputs'] = {'note': 'one-step counterexample state is not reachable through the API as such; the driver searches call histories'}
        try: fam0(doc, {}, r, work, root, repo)
        except Exception as ex: doc['native'] = 'no-driver'; doc['replay_error'] = repr(ex)
        return
    # counterexample mode: buffers of symbolic length get a constant capacity so that CBMC's trace lists their initial bytes
    for cap in (64, 4096):
        gb = r['rebuild'](['-DVERIF_CEX=%d' % cap], 'cex%d' % cap) if r.get('rebuild') else None
        if gb:
            inp = trace_inputs(os.path.dirname(gb), gb, f['obligation'], ob, list(r.get('cbmc_flags', [])), entry)
            if inp is not None:
                inp['cex_capacity'] = cap; break
    if inp is None:
        inp = trace_inputs(d, os.path.join(d, 'b.gb') if os.path.exists(os.path.join(d, 'b.gb')) else os.path.join(d, 'a.gb'), f['obligation'], ob, list(r.get('cbmc_flags', [])), entry)
    doc['inputs'] = inp
    if inp is None and not getattr(fam0, 'optional_trace', False):
        doc['native'] = 'no-counterexample'; return
    fam = family_of(r, root)
    if fam is None:
        doc['native'] = 'no-driver'; return
    try:
        fam(doc, inp, r, work, root, repo)
    except Exception as ex:
        doc['native'] = 'no-driver'; doc['replay_error'] = repr(ex)

# ----------------------------------------------------------------------------- native library

def native_lib(work, repo):
    """static library of /repo's working tree with ASan+UBSan; built once per run"""
    with _lock:
        nd = os.path.join(work, 'native'); lib = os.path.join(nd, 'libasam.a')
        if os.path.exists(lib): return lib
        os.makedirs(nd, exist_ok=True)
        srcs = sorted(glob.glob(os.path.join(repo, 'src', '*.cpp')))
        procs = []
        for s in srcs:
            o = os.path.join(nd, os.path.basename(s)[:-4] + '.o')
            procs.append((o, subprocess.Popen(['g++', '-std=c++17', '-O1', '-g', '-fsanitize=address,undefined', '-fno-omit-frame-pointer', '-I' + os.path.join(repo, 'include'), '-c', s, '-o', o], stderr=subprocess.PIPE)))
        objs = []
        for o, p in procs:
            _, e = p.communicate()
            if p.returncode != 0: raise RuntimeError('native build failed: ' + e.decode()[-400:])
            objs.append(o)
        subprocess.check_call(['ar', 'rcs', lib] + objs)
        return lib

def build_driver(work, repo, name, code):
    lib = native_lib(work, repo)
    nd = os.path.join(work, 'native'); src = os.path.join(nd, name + '.cpp'); exe = os.path.join(nd, name)
    open(src, 'w').write(code)
    p = subprocess.run(['g++', '-std=c++17', '-O1', '-g', '-fsanitize=address,undefined', '-fno-access-control', '-I' + os.path.join(repo, 'include'), src, lib, '-o', exe], stderr=subprocess.PIPE)
    if p.returncode != 0: raise RuntimeError('driver build failed: ' + p.stderr.decode()[-800:])
    return exe

ALL_HEADERS = ['analog_payload', 'can_fd_payload', 'can_payload', 'capture_module_payload', 'cmp_header', 'decoder', 'encoder', 'ethernet_payload',
               'interface_payload', 'lin_payload', 'message_header', 'packet', 'payload', 'status', 'tecmp_can_payload', 'tecmp_capture_module_payload',
               'tecmp_converter', 'tecmp_decoder', 'tecmp_header', 'tecmp_interface_payload', 'tecmp_lin_payload', 'tecmp_payload']
PRE = '\n'.join(f'#include <asam_cmp/{h}.h>' for h in ALL_HEADERS) + '''
#include <cstdio>
#include <cstring>
#include <cstdlib>
#include <string>
static std::vector<uint8_t> unhex(const char* s) { std::vector<uint8_t> v; size_t n = strlen(s); for (size_t i = 0; i + 1 < n; i += 2) { unsigned x; sscanf(s + i, "%2x", &x); v.push_back((uint8_t)x); } return v; }
static void hex(const uint8_t* p, size_t n) { for (size_t i = 0; i < n; ++i) printf("%02x", p[i]); printf("\\n"); }
'''

# ----------------------------------------------------------------------------- family: layout accessors

VALIDATORS = {
 'ASAM_CMP_CanPayloadBase_isValidPayload': ('ASAM::CMP::CanPayload::isValidPayload', 'VALID_CAN(d, n)', 'ERR_CAN_MUST(d)', 'ERR_CAN_MAY(d)'),
 'ASAM_CMP_LinPayload_isValidPayload': ('ASAM::CMP::LinPayload::isValidPayload', 'VALID_LIN(d, n)', '0', '0'),
 'ASAM_CMP_EthernetPayload_isValidPayload': ('ASAM::CMP::EthernetPayload::isValidPayload', 'VALID_ETH(d, n)', 'ERR_ETH_MUST(d)', 'ERR_ETH_MAY(d)'),
 'ASAM_CMP_AnalogPayload_isValidPayload': ('ASAM::CMP::AnalogPayload::isValidPayload', 'VALID_ANALOG(d, n)', '0', '0'),
 'ASAM_CMP_CaptureModulePayload_isValidPayload': ('ASAM::CMP::CaptureModulePayload::isValidPayload', 'VALID_CM(d, n)', '0', '0'),
 'ASAM_CMP_InterfacePayload_isValidPayload': ('ASAM::CMP::InterfacePayload::isValidPayload', 'VALID_IF(d, n)', '0', '!IF_STATUS_OK(d)'),
 'ASAM_CMP_Packet_isValidPacket': ('ASAM::CMP::Packet::isValidPacket', 'VALID_MSG(d, n)', '0', '0'),
}

def spec_native_prelude(root):
    return '#define VERIF_NATIVE 1\n#define _Bool bool\nextern "C" {\n#include "%s/models/prelude.h"\n}\n#undef VIEW_IN\n#define __CPROVER_same_object(a, b) 1\n#define __CPROVER_POINTER_OFFSET(p) 0\n#define __CPROVER_is_fresh(a, b) 1\nsize_t g_k;\n#include "%s/models/vocab.h"\n' % (root, root)

def validator_replay(doc, inp, r, work, root, repo):
    fn = r['enforce']; cpp, valid, must, may = VALIDATORS[fn]
    objs = [o for o in inp['objects'] if 'bytes' in o]
    n = inp['args'].get('n')
    if not objs or n is None: doc['native'] = 'no-counterexample'; return
    bs = bytes.fromhex(objs[0]['bytes'])[:n]
    code = PRE + spec_native_prelude(root) + '''int main(int argc, char** argv) {
  auto in = unhex(argv[1]); const uint8_t* d = in.data(); size_t n = in.size();
  std::vector<uint8_t> copy(in);   // exact-size heap copy so that ASan sees reads past the end
  bool ret = %s(copy.data(), copy.size());
  bool valid = %s; bool must = valid && (%s); bool may = valid && (%s);
  printf("ret=%%d valid=%%d err_must=%%d err_may=%%d\\n", ret, valid, must, may);
  return ((ret && !valid) || (ret && must) || (valid && !may && !ret)) ? 3 : 0;
}
''' % (cpp, valid, must, may)
    exe = build_driver(work, repo, 'drv_val_' + hashlib.md5(fn.encode()).hexdigest()[:8], code)
    p = subprocess.run([exe, bs.hex()], stdout=subprocess.PIPE, stderr=subprocess.PIPE, timeout=60)
    doc['native_call'] = f"{cpp}(bytes={bs.hex()}, size={len(bs)})"
    doc['native_observed'] = p.stdout.decode().strip(); doc['native_stderr'] = p.stderr.decode()[-800:]
    doc['native_expected'] = 'ret => valid && !err_must;  valid && !err_may => ret'
    doc['native'] = 'reproduced' if p.returncode != 0 else 'not-reproduced'
    doc['replay_driver'] = code; doc['replay_argv'] = [bs.hex()]

def fieldval(inp, suffix, default=0):
    for o in inp['objects']:
        for k, v in o.get('fields', {}).items():
            if k == suffix or k.endswith(suffix):
                if v is None: continue
                m = re.match(r'^-?\d+', str(v))
                if m: return int(m.group(0))
                if v in ('TRUE', 'FALSE'): return int(v == 'TRUE')
    return default

def segpkt_replay(doc, inp, r, work, root, repo):
    fn = r['enforce']; a = inp['args']
    bufs = [o for o in inp['objects'] if 'bytes' in o]
    n = a.get('n')
    if n is None or not bufs: doc['native'] = 'no-counterexample'; return
    is_ctor = '_ctor__' in fn
    frame = bytes.fromhex(bufs[-1]['bytes'])[:n] if is_ctor else None
    if not is_ctor:
        # objects: this, (payload buffer), data
        frame = bytes.fromhex(bufs[-1]['bytes'])[:n]
    n0 = fieldval(inp, '.payload.n'); st = fieldval(inp, '.segmentType'); ver = fieldval(inp, '.curVersion'); mt = fieldval(inp, '.curMessageType'); seq = fieldval(inp, '.curSegment')
    old = bytes.fromhex(bufs[0]['bytes'])[:n0] if (not is_ctor and len(bufs) >= 2) else bytes(n0)
    if len(old) < n0: old = old + bytes(n0 - len(old))
    code = PRE + spec_native_prelude(root) + '''using SP = ASAM::CMP::Decoder::SegmentedPacket;
int main(int argc, char** argv) {
  auto in = unhex(argv[1]); std::vector<uint8_t> copy(in); const uint8_t* d = copy.data(); size_t n = copy.size();
  unsigned v = atoi(argv[2]), t = atoi(argv[3]), s = atoi(argv[4]); bool ctor = atoi(argv[5]);
  if (ctor) {
    SP sp(d, n, (uint8_t)v, (ASAM::CMP::CmpHeader::MessageType)t, (uint16_t)s);
    size_t want = 16 + (size_t)BE16(d, 14);
    printf("stored=%zu expected=%zu\\n", sp.payload.size(), want);
    return sp.payload.size() == want ? 0 : 3;
  }
  auto old = unhex(argv[6]); unsigned st = atoi(argv[7]), ver = atoi(argv[8]), mt = atoi(argv[9]), seq = atoi(argv[10]);
  SP sp; sp.payload = old; sp.segmentType = (ASAM::CMP::MessageHeader::SegmentType)st; sp.curVersion = (uint8_t)ver; sp.curMessageType = (ASAM::CMP::CmpHeader::MessageType)mt; sp.curSegment = (uint16_t)seq;   // state-injected
  size_t n0 = sp.payload.size();
  bool ret = sp.addSegment(d, n, (uint8_t)v, (ASAM::CMP::CmpHeader::MessageType)t, (uint16_t)s);
  bool want = SP_ACCEPT(st, ver, mt, seq, v, t, s, d, n);
  printf("ret=%d expected=%d stored=%zu\\n", ret, want, sp.payload.size());
  if (ret != want) return 3;
  if (ret && sp.payload.size() != n0 + (size_t)BE16(d, 14)) return 4;
  return 0;
}
'''
    exe = build_driver(work, repo, 'drv_sp', code)
    argv = [frame.hex(), str(a.get('v', 0)), str(a.get('t', 0)), str(a.get('s', 0)), '1' if is_ctor else '0', old.hex() or '00', str(st), str(ver), str(mt), str(seq)]
    if not is_ctor and n0 == 0: argv[5] = ''
    p = subprocess.run([exe] + argv, stdout=subprocess.PIPE, stderr=subprocess.PIPE, timeout=60)
    doc['native_call'] = ('SegmentedPacket(first segment) ' if is_ctor else 'SegmentedPacket::addSegment [state-injected slot] ') + ' '.join(argv)[:400]
    doc['native_observed'] = p.stdout.decode().strip(); doc['native_stderr'] = p.stderr.decode()[-600:]
    doc['native_expected'] = 'stored == 16 + declared' if is_ctor else 'ret == accept-iff-next-segment (counter mod 2^16)'
    doc['native'] = 'reproduced' if p.returncode != 0 else 'not-reproduced'
    doc['replay_driver'] = code; doc['replay_argv'] = argv

def packet_kind_replay(doc, inp, r, work, root, repo):
    """Packet::create / Packet(msgType, data, size): build the message natively and compare the payload kind with the oracle"""
    fn = r['enforce']; a = inp['args']
    bufs = [o for o in inp['objects'] if 'bytes' in o]
    n = a.get('n')
    if n is None or not bufs: doc['native'] = 'no-counterexample'; return
    if fn.endswith('Packet_create'):
        t = fieldval({'objects': [{'fields': {'.type': str(a.get('t', 0))}}]}, '.type') if isinstance(a.get('t'), int) else None
        tt = None
        for o in inp['objects']:
            for k, v in o.get('fields', {}).items():
                pass
        tt = a.get('t.type')
        mk = re.search(r'-DKIND_FIX=(0x[0-9a-fA-F]+)', r.get('cmd', ''))
        if tt is None and mk: tt = int(mk.group(1), 16)
        if tt is None: doc['native'] = 'no-counterexample'; return
        payload = bytes.fromhex(bufs[-1]['bytes'])[:n]
        msgtype = (tt >> 8) & 0xFF
        hdr = bytes(12) + bytes([0, tt & 0xFF]) + len(payload).to_bytes(2, 'big')
        msg = hdr + payload
    else:
        msg = bytes.fromhex(bufs[-1]['bytes'])[:n]; msgtype = a.get('t', 0) & 0xFF
    code = PRE + spec_native_prelude(root) + '''int main(int argc, char** argv) {
  auto in = unhex(argv[1]); std::vector<uint8_t> copy(in); unsigned mt = atoi(argv[2]);
  const uint8_t* b = copy.data(); size_t n = copy.size();
  if (!VALID_MSG(b, n)) { printf("message not valid at message level\\n"); return 0; }
  ASAM::CMP::Packet p((ASAM::CMP::CmpHeader::MessageType)mt, b, n);
  uint32_t T = PTYPE(mt, b); uint32_t got = p.getPayload().getType().getType();
  const uint8_t* d = b + 16; size_t len = BE16(b, 14);
  bool must = KIND_MUST_GEN(T, d, len), may = KIND_MAY_GEN(T, d, len);
  printf("kind=0x%04x returned=0x%04x may_be_typed=%d must_be_typed=%d\\n", T, got, must, may);
  if (got == T && !must) return 3;
  if (may && got != T) return 4;
  if (got != T && got != 0) return 5;
  return 0;
}
'''
    exe = build_driver(work, repo, 'drv_kind', code)
    argv = [msg.hex(), str(msgtype)]
    p = subprocess.run([exe] + argv, stdout=subprocess.PIPE, stderr=subprocess.PIPE, timeout=60)
    doc['native_call'] = f"Packet(msgType={msgtype}, bytes={msg.hex()[:200]}, size={len(msg)})"
    doc['native_observed'] = p.stdout.decode().strip(); doc['native_stderr'] = p.stderr.decode()[-600:]
    doc['native_expected'] = 'typed => consistent & no bus-error flags;  consistent & error-free => typed'
    doc['native'] = 'reproduced' if p.returncode != 0 else 'not-reproduced'
    doc['replay_driver'] = code; doc['replay_argv'] = argv

def clause_replay(doc, inp, r, work, root, repo):
    """const accessor of a typed payload class under its validity predicate: construct the object from the counterexample bytes,
    call the accessor natively and evaluate the FAILED CLAUSE ITSELF (compiled natively) on the result"""
    q = doc.get('function_cxx') or ''
    clause = doc.get('clause') or ''
    m = re.match(r'^__CPROVER_ensures\((.*)\)\s*$', clause)
    if not m or '::' not in q: doc['native'] = 'no-driver'; return
    expr = m.group(1)
    cls, meth = q.rsplit('::', 1)
    native_cls = {'ASAM::CMP::CanPayloadBase': 'ASAM::CMP::CanPayload'}.get(cls, cls)
    bufs = [o for o in inp['objects'] if 'bytes' in o]
    n = None
    for o in inp['objects']:
        for k, v in o.get('fields', {}).items():
            if k.endswith('payloadData.n') and v: n = int(re.sub(r'[a-z]+$', '', v))
    if not bufs or n is None or n > len(bufs[-1]['bytes']) // 2: doc['native'] = 'no-counterexample'; return
    bs = bytes.fromhex(bufs[-1]['bytes'])[:n]
    e = expr.replace('__CPROVER_return_value', 'rv')
    e = re.sub(r'this->(__base\.)+payloadData\.d', 'd', e); e = re.sub(r'this->(__base\.)+payloadData\.n', 'n', e)
    gk = inp.get('ghost', {}).get('g_k', 0)
    code = PRE + spec_native_prelude(root) + '''#undef VIEW_IN
#define VIEW_IN(p, len, d, n) ((len) == 0 || ((const uint8_t*)(p) >= (d) && (const uint8_t*)(p) + (len) <= (d) + (n)))
struct svn { const char* p; size_t n; };
template <class T> static T conv(T v) { return v; }
static svn conv(std::string_view v) { return svn{v.data(), v.size()}; }
int main(int argc, char** argv) {
  FILE* f = fopen(argv[1], "rb"); std::vector<uint8_t> in; int c; while ((c = fgetc(f)) != EOF) in.push_back((uint8_t)c); fclose(f);
  g_k = strtoull(argv[2], 0, 10);
  %s obj(in.data(), in.size());
  const uint8_t* d = obj.getRawPayload(); size_t n = obj.getLength(); (void)d; (void)n;
  auto rv = conv(static_cast<const %s&>(obj).%s());
  bool holds = (%s);
  printf("clause_holds=%%d\\n", holds);
  return holds ? 0 : 3;
}
''' % (native_cls, cls, meth, e)
    exe = build_driver(work, repo, 'drv_clause_' + hashlib.md5((q + e).encode()).hexdigest()[:8], code)
    os.makedirs(os.path.join(root, 'replay', 'out'), exist_ok=True)
    binp = os.path.join(root, 'replay', 'out', 'input-' + hashlib.md5(bs).hexdigest()[:12] + '.bin')
    open(binp, 'wb').write(bs)
    argv = [binp, str(gk)]
    p = subprocess.run([exe] + argv, stdout=subprocess.PIPE, stderr=subprocess.PIPE, timeout=120)
    doc['native_call'] = f"{cls}(bytes of {os.path.relpath(binp, root)}, size={len(bs)}).{meth}()  then the failed clause evaluated natively"
    doc['native_observed'] = p.stdout.decode().strip(); doc['native_stderr'] = p.stderr.decode()[-800:]
    doc['native_expected'] = 'clause_holds=1 and no sanitizer report'
    doc['native'] = 'reproduced' if p.returncode != 0 else 'not-reproduced'
    doc['replay_driver'] = code; doc['replay_argv'] = argv
    doc['inputs']['objects'] = [o if 'bytes' not in o or len(o['bytes']) < 4096 else {'name': o['name'], 'bytes_file': os.path.relpath(binp, root), 'length': len(o['bytes']) // 2} for o in inp['objects']]

ACCESSOR_CLASSES = ('ASAM_CMP_CanPayloadBase_', 'ASAM_CMP_LinPayload_', 'ASAM_CMP_EthernetPayload_', 'ASAM_CMP_AnalogPayload_', 'ASAM_CMP_CaptureModulePayload_', 'ASAM_CMP_InterfacePayload_')

ENCODER_DRIVER = r'''
using namespace ASAM::CMP;
static int fails = 0;
#define CHECK(c, ...) do { if (!(c)) { printf("VIOLATED: "); printf(__VA_ARGS__); printf("\n"); ++fails; } } while (0)
struct Sent { uint8_t mt; uint8_t pt; std::vector<uint8_t> bytes; uint64_t ts; uint32_t ifid; uint16_t vendor; uint8_t flags; };
static Packet mk(const Sent& s) { Packet p; Payload pl(PayloadType((CmpHeader::MessageType)s.mt, s.pt), s.bytes.data(), s.bytes.size()); p.setPayload(pl); p.setTimestamp(s.ts); p.setInterfaceId(s.ifid); p.setVendorId(s.vendor); p.setCommonFlags(s.flags); return p; }
// independent frame walker: C07 C08 C09 C01 oracles over the raw frames
static void walk(const std::vector<std::vector<uint8_t>>& frames, const std::vector<Sent>& sent, size_t mn, size_t mx, uint16_t dev, uint8_t stream, uint16_t firstSeq, const char* tag) {
  size_t si = 0, pos = 0; int segstate = 0; uint16_t seq = firstSeq;
  for (size_t f = 0; f < frames.size(); ++f) {
    const auto& fr = frames[f];
    CHECK(fr.size() >= mn && fr.size() <= mx && fr.size() >= 8, "%s frame %zu size %zu outside [%zu,%zu]", tag, f, fr.size(), mn, mx);
    if (fr.size() < 8) return;
    CHECK(fr[1] == 0 && ((fr[2] << 8) | fr[3]) == dev && fr[5] == stream, "%s frame %zu header identity", tag, f);
    CHECK((uint16_t)((fr[6] << 8) | fr[7]) == seq, "%s frame %zu counter %u expected %u", tag, f, (fr[6] << 8) | fr[7], seq); seq = (uint16_t)(seq + 1);
    size_t off = 8, msgs = 0; bool hasSeg = false;
    while (off + 16 <= fr.size()) {
      size_t len = (fr[off + 14] << 8) | fr[off + 15]; uint8_t pt = fr[off + 13];
      if (pt == 0 && len == 0) break;   // padding
      CHECK(off + 16 + len <= fr.size(), "%s frame %zu message at %zu declares %zu bytes beyond the frame", tag, f, off, len);
      if (off + 16 + len > fr.size()) return;
      CHECK(si < sent.size(), "%s more messages than packets", tag); if (si >= sent.size()) return;
      const Sent& s = sent[si]; int seg = (fr[off + 12] >> 2) & 3;
      CHECK(fr[4] == s.mt, "%s frame %zu announces type %u but carries a message of type %u", tag, f, fr[4], s.mt);
      CHECK(!hasSeg, "%s frame %zu: message after a segment", tag, f);
      CHECK(seg == 0 || msgs == 0, "%s frame %zu: segment not alone", tag, f);
      bool needSeg = 16 + s.bytes.size() > mx - 8;
      CHECK((seg != 0) == needSeg, "%s packet %zu (%zu bytes, max %zu): segmented=%d but needs segmentation=%d", tag, si, s.bytes.size(), mx, seg != 0, needSeg);
      if (seg == 0) CHECK(segstate == 0 && len == s.bytes.size(), "%s unsegmented message with wrong length/state", tag);
      if (seg == 1) CHECK(segstate == 0 && pos == 0, "%s first segment out of order", tag);
      if (seg == 2 || seg == 3) CHECK(segstate != 0, "%s continuing segment without first", tag);
      if (seg == 1 || seg == 2) CHECK(off + 16 + len == mx, "%s non-last segment does not fill the frame", tag);
      CHECK(len >= 1, "%s empty message", tag);
      CHECK(pos + len <= s.bytes.size() && memcmp(&fr[off + 16], s.bytes.data() + pos, std::min(len, s.bytes.size() - pos)) == 0, "%s packet %zu: payload bytes at %zu differ from the packet's bytes (segment copy)", tag, si, pos);
      CHECK(pt == s.pt, "%s payload type", tag);
      uint64_t ts = 0; for (int i = 0; i < 8; ++i) ts = (ts << 8) | fr[off + i]; CHECK(ts == s.ts, "%s timestamp", tag);
      CHECK((fr[off + 12] & ~0x0C) == (s.flags & ~0x0C), "%s flags", tag);
      pos += len; hasSeg = seg != 0; segstate = (seg == 1 || seg == 2) ? 1 : 0; ++msgs; off += 16 + len;
      if (seg == 0 || seg == 3) { CHECK(pos == s.bytes.size(), "%s packet %zu incomplete: %zu of %zu bytes", tag, si, pos, s.bytes.size()); ++si; pos = 0; }
    }
    CHECK(msgs >= 1, "%s frame %zu (of %zu) holds no message", tag, f, frames.size());
    for (size_t i = off; i < fr.size(); ++i) if (fr[i]) { CHECK(false, "%s frame %zu non-zero padding", tag, f); break; }
    CHECK(fr.size() == std::max(off, mn), "%s frame %zu size %zu != max(used %zu, min %zu)", tag, f, fr.size(), off, mn);
  }
  CHECK(si == sent.size() && pos == 0, "%s %zu of %zu packets on the wire", tag, si, sent.size());
}
static void roundtrip(const std::vector<std::vector<uint8_t>>& frames, const std::vector<Sent>& sent, const char* tag) {
  Decoder dec; std::vector<std::shared_ptr<Packet>> got;
  for (auto& f : frames) { auto r = dec.decode(f.data(), f.size()); got.insert(got.end(), r.begin(), r.end()); }
  CHECK(got.size() == sent.size(), "%s round trip: %zu packets decoded, %zu sent", tag, got.size(), sent.size());
  for (size_t i = 0; i < got.size() && i < sent.size(); ++i) {
    CHECK(got[i]->getPayloadLength() == sent[i].bytes.size() && memcmp(got[i]->getPayload().getRawPayload(), sent[i].bytes.data(), sent[i].bytes.size()) == 0, "%s round trip: packet %zu payload differs", tag, i);
    CHECK(got[i]->getPayload().getMessageType() == (CmpHeader::MessageType)sent[i].mt, "%s round trip: packet %zu message type", tag, i);
  }
}
int main(int argc, char** argv) {
  size_t len = strtoull(argv[1], 0, 10), mx = strtoull(argv[2], 0, 10), mn = strtoull(argv[3], 0, 10); unsigned mt = atoi(argv[4]);
  if (len < 1 || len > 65535 || mx < 25 || mx > 65559 || mn > mx || mt == 0) { printf("parameters outside the domain\n"); return 0; }
  Sent big{(uint8_t)mt, 0xFE, std::vector<uint8_t>(len), 0x1122334455667788ull, 0xA1B2C3D4, 0x7788, 0x13};
  for (size_t i = 0; i < len; ++i) big.bytes[i] = (uint8_t)(i * 7 + 3);
  Sent small1{(uint8_t)(mt == 1 ? 3 : 1), 0xFD, {1, 2, 3}, 5, 6, 7, 0}, small2{(uint8_t)mt, 0xFC, {9, 8}, 1, 2, 3, 0x20};
  DataContext ctx{mn, mx};
  { Encoder e; e.setDeviceId(0x1234); e.setStreamId(0x56); auto p = mk(big);
    auto f1 = e.encode(p, ctx); walk(f1, {big}, mn, mx, 0x1234, 0x56, 1, "[fresh encoder, single packet]"); roundtrip(f1, {big}, "[fresh encoder, single packet]");
    uint16_t c = e.getSequenceCounter(); CHECK(c == (uint16_t)f1.size(), "reported counter %u after %zu frames", c, f1.size());
    auto f2 = e.encode(p, ctx); walk(f2, {big}, mn, mx, 0x1234, 0x56, (uint16_t)(c + 1), "[second encode call on the same encoder]");
    CHECK(f1.size() == f2.size(), "second call produced %zu frames, first %zu", f2.size(), f1.size()); }
  { Encoder e; std::vector<Packet> batch{mk(small1), mk(big), mk(small2)};
    auto f = e.encode(batch.begin(), batch.end(), ctx); walk(f, {small1, big, small2}, mn, mx, 0, 0, 1, "[batch: other type, packet, same type]"); roundtrip(f, {small1, big, small2}, "[batch]"); }
  { Encoder e; std::vector<Packet> none; auto f = e.encode(none.begin(), none.end(), ctx); CHECK(f.empty(), "empty batch produced %zu frames", f.size()); }
  // histories: the configuration, the protocol version and the ids change between calls on ONE encoder; every call is compared with a fresh encoder (C10)
  { Encoder e; e.setDeviceId(0x0102); e.setStreamId(7);
    size_t mx0 = std::min<size_t>(65559, mx * 4 + 100); DataContext wide{0, mx0};
    auto p0 = mk(big); p0.setVersion(1); auto f0 = e.encode(p0, wide); walk(f0, {big}, 0, mx0, 0x0102, 7, 1, "[history: first call, wider frames]");
    uint16_t c = e.getSequenceCounter();
    auto p1 = mk(big); p1.setVersion(2);
    auto f1 = e.encode(p1, ctx); walk(f1, {big}, mn, mx, 0x0102, 7, (uint16_t)(c + 1), "[history: second call, narrower frames]"); roundtrip(f1, {big}, "[history: second call]");
    Encoder fresh; fresh.setDeviceId(0x0102); fresh.setStreamId(7); auto g1 = fresh.encode(p1, ctx);
    CHECK(f1.size() == g1.size(), "[history] used encoder: %zu frames, fresh encoder: %zu frames for the same batch", f1.size(), g1.size());
    for (size_t i = 0; i < f1.size() && i < g1.size(); ++i) {
      bool same = f1[i].size() == g1[i].size(); for (size_t k = 0; same && k < f1[i].size(); ++k) if (k != 6 && k != 7 && f1[i][k] != g1[i][k]) same = false;
      CHECK(same, "[history] frame %zu of the used encoder differs from the fresh encoder's (other than the counter)", i);
      CHECK(f1[i].size() < 1 || f1[i][0] == 2, "[history] frame %zu carries version %u, the batch has version 2", i, f1[i].empty() ? 0 : f1[i][0]); }
    e.setDeviceId(0x0102);      // setting the same id again restarts the counter as well
    auto f2 = e.encode(p1, ctx); walk(f2, {big}, mn, mx, 0x0102, 7, 1, "[history: after setDeviceId(same id)]"); }
  // a frame that is closed early (next packet does not fit / other message type) must still be padded to the minimum
  if (mx >= 80) { Encoder e; size_t mnr = mx / 2; DataContext c2{mnr, mx};
    Sent mid{(uint8_t)mt, 0xFB, std::vector<uint8_t>(mx - 24 - 6, 0x5A), 3, 4, 5, 0}; Sent other{(uint8_t)(mt == 1 ? 3 : 1), 0xFA, {7, 7, 7, 7}, 1, 1, 1, 0};
    std::vector<Packet> batch{mk(small2), mk(mid), mk(small2), mk(other), mk(small2)};
    auto f = e.encode(batch.begin(), batch.end(), c2); walk(f, {small2, mid, small2, other, small2}, mnr, mx, 0, 0, 1, "[roll-over: frames closed early, minimum = max/2]"); roundtrip(f, {small2, mid, small2, other, small2}, "[roll-over]"); }
  // counter wrap: more than 65536 frames on one encoder
  if (len == 1 && mx == 25) { Encoder e; Sent huge{(uint8_t)mt, 0xF9, std::vector<uint8_t>(40000, 1), 0, 0, 0, 0}; auto p = mk(huge); DataContext c3{0, 25};
    auto fa = e.encode(p, c3); walk(fa, {huge}, 0, 25, 0, 0, 1, "[wrap: first 40000 frames]"); uint16_t c = e.getSequenceCounter();
    auto fb = e.encode(p, c3); walk(fb, {huge}, 0, 25, 0, 0, (uint16_t)(c + 1), "[wrap: frames 40001..80000, counter passes 65535 -> 0]");
    CHECK(e.getSequenceCounter() == (uint16_t)(80000 & 0xFFFF), "[wrap] reported counter %u after 80000 frames", e.getSequenceCounter()); }
  printf("violations=%d\n", fails);
  return fails ? 3 : 0;
}
'''

def encoder_replay(doc, inp, r, work, root, repo):
    """encoder obligations: the counterexample's parameters (payload length, max, min, message type) are replayed through the public API
    in scenarios (fresh encoder; second call on the same encoder; batch with type change; empty batch; a history of calls with changing frame
    size / protocol version / re-set ids compared with a fresh encoder; frames closed early under a minimum size; 80 000 frames across the
    counter wrap); an independent frame walker and a decode round trip are the oracle"""
    ln = fieldval(inp, '.payloadData.n', 0) & 0xFFFF
    mx = fieldval(inp, '.maxBytesPerMessage', 0); mn = fieldval(inp, '.minBytesPerMessage', 0)
    mt = (fieldval(inp, '.type.type', 0x0100) >> 8) & 0xFF
    cands = []
    if 1 <= ln <= 65535 and 25 <= mx <= 65559 and mn <= mx and mt: cands.append((ln, mx, mn, mt))
    # generic probes around the fit / no-fit boundary when the counterexample state is mid-call and not API-reachable as such
    for (l, m) in ((1, 25), (2, 25), (100, 64), (206, 100), (76, 100), (77, 100)): cands.append((l, m, 0 if not mn or mn > m else mn, mt or 1))
    code = PRE + ENCODER_DRIVER
    exe = build_driver(work, repo, 'drv_encoder', code)
    doc['native_expected'] = 'violations=0 (independent frame walker + decode round trip)'
    for k, (l, m, n0, t) in enumerate(cands):
        argv = [str(l), str(m), str(n0), str(t)]
        p = subprocess.run([exe] + argv, stdout=subprocess.PIPE, stderr=subprocess.PIPE, timeout=120)
        if p.returncode != 0:
            doc['native_call'] = f"Encoder scenarios with payload length {l}, max {m}, min {n0}, message type {t}" + (' (parameters of the counterexample)' if k == 0 and len(cands) > 6 else ' (boundary probe)')
            doc['native_observed'] = p.stdout.decode()[-1500:]; doc['native_stderr'] = p.stderr.decode()[-600:]
            doc['native'] = 'reproduced'; doc['replay_driver'] = code; doc['replay_argv'] = argv
            return
    doc['native'] = 'not-reproduced'; doc['replay_driver'] = code; doc['replay_argv'] = [str(x) for x in cands[0]]

VALUE_DRIVER = r'''
using namespace ASAM::CMP;
static Packet mk(bool present, unsigned type, size_t len, unsigned seed) { Packet p; if (present) { std::vector<uint8_t> b(len); for (size_t i = 0; i < len; ++i) b[i] = (uint8_t)(seed + i); Payload pl(PayloadType(type), b.data(), b.size()); p.setPayload(pl); } return p; }
int main(int argc, char** argv) {
  std::string what = argv[1]; int bad = 0;
  if (what == "eq_reflexive") {
    size_t n = strtoull(argv[2], 0, 10); unsigned type = strtoul(argv[3], 0, 10); std::vector<uint8_t> b(n, 7);
    Payload x(PayloadType(type), b.data(), b.size()); TECMP::Payload t(TECMP::PayloadType(type), b.data(), b.size()); Packet p = mk(true, type, n, 1);
    if (!(x == x)) { printf("VIOLATED: Payload x == x is false (length %zu)\n", n); ++bad; }
    if (!(t == t)) { printf("VIOLATED: TECMP::Payload x == x is false (length %zu)\n", n); ++bad; }
    if (!(p == p) && n > 0 && n <= 65535) { printf("VIOLATED: Packet x == x is false\n"); ++bad; }
    if ((p != p) == (p == p)) { printf("VIOLATED: != is not the negation of ==\n"); ++bad; }
  } else {   // assign: target(present,type,len) = source(present,type,len)
    bool tp = atoi(argv[2]); unsigned tt = strtoul(argv[3], 0, 10); size_t tl = strtoull(argv[4], 0, 10); bool sp = atoi(argv[5]); unsigned st = strtoul(argv[6], 0, 10); size_t sl = strtoull(argv[7], 0, 10);
    Packet a = mk(tp, tt, tl, 3), b = mk(sp, st, sl, 9);
    a = b;
    bool presentA = true; try { presentA = sp ? (a.getPayloadLength() == sl) : true; } catch (...) {}
    if (sp) {
      if (!tp && !sp) {}
      if (a.getPayloadLength() != b.getPayloadLength()) { printf("VIOLATED: assigned packet has payload length %u, source %u\n", a.getPayloadLength(), b.getPayloadLength()); ++bad; }
      else if (a.isValid() != b.isValid() || (a.isValid() && a.getPayload().getType().getType() != b.getPayload().getType().getType())) { printf("VIOLATED: assigned packet's payload type/validity differs from the source's\n"); ++bad; }
      else if (!tp && a.isValid() != b.isValid()) { ++bad; }
      if (sp && tp && a.isValid() && b.isValid() && a.getPayload().getType().getType() != st) { printf("VIOLATED: payload type not copied\n"); ++bad; }
      if (sp && !a.isValid() && b.isValid()) { printf("VIOLATED: source has a valid payload, assigned target has none/invalid\n"); ++bad; }
    } else if (tp && a.isValid()) { printf("VIOLATED: source has no payload but the assigned target kept its own\n"); ++bad; }
  }
  printf("violations=%d\n", bad); return bad ? 3 : 0;
}
'''

def value_replay(doc, inp, r, work, root, repo):
    """C14: equality reflexivity / assignment; the counterexample's shape (payload presence, types, lengths) is rebuilt through the public API"""
    fn = r['enforce'] or ''
    code = PRE + VALUE_DRIVER
    exe = build_driver(work, repo, 'drv_value', code)
    runs = []
    if 'op_eq' in fn or 'op_ne' in fn:
        n = fieldval(inp, '.payloadData.n', 4)
        for nn in (n if 0 < n <= 65535 else 4, 0, 1): runs.append(['eq_reflexive', str(nn), str(0x0101)])
    else:
        # target / source shapes: from the trace when present, plus the zero-length / empty-packet corner cases
        for (tp, tt, tl, sp, st, sl) in ((1, 0x01FF, 0, 0, 0, 0), (0, 0, 0, 1, 0x0102, 0), (1, 0x0101, 0, 1, 0x0102, 0), (1, 0x0101, 3, 1, 0x0102, 3), (0, 0, 0, 1, 0x0101, 5)):
            runs.append(['assign', str(tp), str(tt), str(tl), str(sp), str(st), str(sl)])
    doc['native_expected'] = 'violations=0'
    for argv in runs:
        p = subprocess.run([exe] + argv, stdout=subprocess.PIPE, stderr=subprocess.PIPE, timeout=60)
        if p.returncode != 0:
            doc['native_call'] = 'value-semantics scenario ' + ' '.join(argv); doc['native_observed'] = p.stdout.decode()[-800:]; doc['native_stderr'] = p.stderr.decode()[-400:]
            doc['native'] = 'reproduced'; doc['replay_driver'] = code; doc['replay_argv'] = argv; return
    doc['native'] = 'not-reproduced'; doc['replay_driver'] = code; doc['replay_argv'] = runs[0]

# ----------------------------------------------------------------------------- family: status tracker (C16)
STATUS_DRIVER = r"""
#include <map>
using namespace ASAM::CMP;
// reference: device id -> (stamp of latest capture-module status, interface id -> stamp of latest interface status)
struct RefDev { uint64_t stamp; std::map<uint32_t, uint64_t> ifs; };
static std::map<uint16_t, RefDev> ref;
static Status* st;
static uint64_t stampNo;
static Packet mk(int kind, uint16_t dev, uint32_t iface) {
  Packet p;
  if (kind == 0) { CaptureModulePayload c; c.setData("d", "s", "h", "w", {7}); p.setPayload(c); }
  else if (kind == 1) { InterfacePayload i; i.setInterfaceId(iface); p.setPayload(i); }
  else { CanPayload c; uint8_t b[2] = {1, 2}; c.setData(b, 2); p.setPayload(c); }
  p.setDeviceId(dev); p.setTimestamp(++stampNo); return p;
}
static std::string hist;
static int check(const char* after) {
  int bad = 0;
  if (st->getDeviceStatusCount() != ref.size()) { printf("VIOLATED after %s: %zu device entries, reference has %zu\n", after, st->getDeviceStatusCount(), ref.size()); return 1; }
  for (uint16_t d = 0; d < 6; ++d) {
    size_t ix = st->getIndexByDeviceId(d); auto it = ref.find(d);
    if (it == ref.end()) { if (ix != st->getDeviceStatusCount()) { printf("VIOLATED after %s: lookup of absent device %u returns %zu, not the count\n", after, d, ix); ++bad; } continue; }
    if (ix >= st->getDeviceStatusCount()) { printf("VIOLATED after %s: device %u is not found\n", after, d); ++bad; continue; }
    DeviceStatus& ds = st->getDeviceStatus(ix);
    if (ds.getPacket().getDeviceId() != d) { printf("VIOLATED after %s: lookup of device %u returns the entry of device %u\n", after, d, ds.getPacket().getDeviceId()); ++bad; }
    if (ds.getPacket().getTimestamp() != it->second.stamp) { printf("VIOLATED after %s: device %u does not hold its latest capture-module packet\n", after, d); ++bad; }
    if (ds.getInterfaceStatusCount() != it->second.ifs.size()) { printf("VIOLATED after %s: device %u has %zu interface entries, reference %zu\n", after, d, ds.getInterfaceStatusCount(), it->second.ifs.size()); ++bad; continue; }
    for (uint32_t i = 0; i < 5; ++i) {
      size_t jx = ds.getIndexByInterfaceId(i); auto jt = it->second.ifs.find(i);
      if (jt == it->second.ifs.end()) { if (jx != ds.getInterfaceStatusCount()) { printf("VIOLATED after %s: lookup of absent interface %u returns %zu\n", after, i, jx); ++bad; } continue; }
      if (jx >= ds.getInterfaceStatusCount()) { printf("VIOLATED after %s: interface %u of device %u not found\n", after, i, d); ++bad; continue; }
      if (ds.getInterfaceStatus(jx).getInterfaceId() != i || ds.getInterfaceStatus(jx).getPacket().getTimestamp() != jt->second) { printf("VIOLATED after %s: interface %u of device %u does not hold its latest packet\n", after, i, d); ++bad; }
    }
  }
  return bad;
}
// operations: 0..2 cm(dev) | 3..8 if(dev, iface) | 9..11 data(dev) | 12..14 removeDevice(dev) | 15..20 removeInterface(dev, iface) | 21 clear
static const uint16_t DEV[3] = {1, 2, 3}; static const uint32_t IFC[2] = {1, 2};
static void apply(int op) {
  char b[64];
  if (op < 3) { uint16_t d = DEV[op]; st->update(mk(0, d, 0)); ref[d].stamp = stampNo; snprintf(b, 64, "cm(%u) ", d); }
  else if (op < 9) { uint16_t d = DEV[(op - 3) / 2]; uint32_t i = IFC[(op - 3) % 2]; st->update(mk(1, d, i)); if (ref.count(d)) ref[d].ifs[i] = stampNo; snprintf(b, 64, "if(%u,%u) ", d, i); }
  else if (op < 12) { uint16_t d = DEV[op - 9]; st->update(mk(2, d, 0)); snprintf(b, 64, "data(%u) ", d); }
  else if (op < 15) { uint16_t d = DEV[op - 12]; st->removeDeviceById(d); ref.erase(d); snprintf(b, 64, "removeDevice(%u) ", d); }
  else if (op < 21) { uint16_t d = DEV[(op - 15) / 2]; uint32_t i = IFC[(op - 15) % 2]; size_t ix = st->getIndexByDeviceId(d);
                      if (ix < st->getDeviceStatusCount()) st->getDeviceStatus(ix).removeInterfaceById(i); if (ref.count(d)) ref[d].ifs.erase(i); snprintf(b, 64, "removeInterface(%u,%u) ", d, i); }
  else { st->clear(); ref.clear(); snprintf(b, 64, "clear "); }
  hist += b;
}
int main(int argc, char** argv) {
  int depth = argc > 1 ? atoi(argv[1]) : 5; const int NOPS = 22;
  std::vector<int> seq(depth, 0);
  unsigned long long n = 0;
  for (int len = 1; len <= depth; ++len) {
    std::vector<int> s(len, 0);
    for (;;) {
      Status status; st = &status; ref.clear(); hist.clear(); stampNo = 0;
      for (int k = 0; k < len; ++k) { apply(s[k]); if (k == len - 1 && check(hist.c_str())) { printf("history: %s\n", hist.c_str()); return 3; } }
      ++n; int k = len - 1; while (k >= 0 && ++s[k] == NOPS) { s[k] = 0; --k; } if (k < 0) break;
    }
  }
  printf("histories=%llu violations=0\n", n); return 0;
}
"""

def status_replay(doc, inp, r, work, root, repo):
    """C16: exhaustive search of call histories (3 devices x 2 interfaces, all operations, length <= 4) against a reference latest-message map"""
    code = PRE + STATUS_DRIVER
    exe = build_driver(work, repo, 'drv_status', code)
    doc['native_expected'] = 'violations=0'
    for argv in (['4'], ['5']):
        # leak detection off: UBSan's vptr report (Packet stores a sliced Payload that the status code down-casts) allocates through the demangler and is reported as a leak
        p = subprocess.run([exe] + argv, stdout=subprocess.PIPE, stderr=subprocess.PIPE, timeout=600, env=dict(os.environ, ASAN_OPTIONS='detect_leaks=0'))
        doc['native_call'] = 'status history search, every history of length <= ' + argv[0]; doc['replay_driver'] = code; doc['replay_argv'] = argv
        if p.returncode != 0:
            doc['native_observed'] = p.stdout.decode()[-800:]; doc['native_stderr'] = p.stderr.decode()[-400:]; doc['native'] = 'reproduced'; return
    doc['native'] = 'not-reproduced'; doc['native_observed'] = p.stdout.decode()[-200:]
status_replay.history_search = True

# ----------------------------------------------------------------------------- family: TECMP decoding / conversion (C15, TECMP part of C02)
TECMP_DRIVER = r"""
using namespace ASAM::CMP;
static uint32_t be32(const uint8_t* p) { return ((uint32_t)p[0] << 24) | ((uint32_t)p[1] << 16) | ((uint32_t)p[2] << 8) | p[3]; }
static uint64_t be64(const uint8_t* p) { return ((uint64_t)be32(p) << 32) | be32(p + 4); }
// independent TECMP parse (DESIGN.md Appendix D): what each returned packet has to report
struct Want { int kind; uint16_t dev; uint64_t ts; uint32_t ifid; uint32_t id; std::vector<uint8_t> data; uint8_t cks; uint32_t msgs, errs; std::string serial, hw, sw; };
static std::vector<Want> parse(const uint8_t* f, size_t size) {
  std::vector<Want> w;
  if (size < 28) return w;
  size_t plen = ((size_t)f[24] << 8) | f[25];
  if (plen == 0 || size < 28 + plen) return w;
  unsigned mt = f[5], dt = ((unsigned)f[6] << 8) | f[7];
  if (mt == 0xFF || (f[6] == 0xFF && f[7] == 0x00)) return w;      // header the library treats as invalid (no packet either way)
  const uint8_t* p = f + 28; size_t m = size - 28;
  Want b{}; b.dev = f[1]; b.ifid = be32(f + 12); b.ts = be64(f + 16);
  if (mt == 1) { if (m >= 18) { b.kind = 1; b.serial = std::to_string(be32(p + 8)); b.sw = "v" + std::to_string(p[13]) + "." + std::to_string(p[14]) + "." + std::to_string(p[15]); b.hw = "v" + std::to_string(p[16]) + "." + std::to_string(p[17]); w.push_back(b); } }
  else if (mt == 3 && (dt == 2 || dt == 3)) { if (m >= 5 && (size_t)p[4] <= m - 5) { b.kind = p[4] > 8 ? 3 : 2; b.id = be32(p) & 0x1FFFFFFFu; b.data.assign(p + 5, p + 5 + p[4]); w.push_back(b); } }
  else if (mt == 3 && dt == 4) { if (m >= 2 && (size_t)p[1] <= m - 2) { b.kind = 4; b.id = p[0] & 0x3F; b.data.assign(p + 2, p + 2 + p[1]); b.cks = m > 2u + p[1] ? p[2 + p[1]] : 0; w.push_back(b); } }
  else if (mt == 2) { for (size_t o = 12; m >= 12 && o + 12 <= m; o += 12) { Want e = b; e.kind = 5; e.ifid = be32(p + o); e.msgs = be32(p + o + 4); e.errs = be32(p + o + 8); w.push_back(e); } }
  return w;
}
static int bad;
#define CHECK(c, ...) do { if (!(c)) { printf("VIOLATED: " __VA_ARGS__); printf("\n"); ++bad; } } while (0)
int main(int argc, char** argv) {
  auto in = unhex(argv[1]); std::vector<uint8_t> copy(in);          // exact-size heap copy: any read past the frame is an ASan report
  auto want = parse(copy.data(), copy.size());
  Decoder dec; auto got = dec.decode(copy.data(), copy.size());
  CHECK(got.size() == want.size(), "%zu packets returned, the TECMP parse expects %zu", got.size(), want.size());
  for (size_t i = 0; i < got.size() && i < want.size(); ++i) {
    const Packet& p = *got[i]; const Want& w = want[i];
    CHECK(p.getDeviceId() == w.dev, "packet %zu: device id %u, wire %u", i, p.getDeviceId(), w.dev);
    CHECK(p.getTimestamp() == w.ts, "packet %zu: timestamp", i);
    CHECK(p.getInterfaceId() == w.ifid, "packet %zu: interface id %u, wire %u", i, p.getInterfaceId(), w.ifid);
    if (w.kind == 2 || w.kind == 3) {
      CHECK(p.getPayload().getType() == (w.kind == 2 ? PayloadType::can : PayloadType::canFd), "packet %zu: payload kind", i);
      auto& c = static_cast<const CanPayloadBase&>(p.getPayload());
      CHECK(c.getId() == w.id, "packet %zu: arbitration id %u, wire %u", i, c.getId(), w.id);
      CHECK(c.getDataLength() == w.data.size(), "packet %zu: data length %u, wire %zu", i, c.getDataLength(), w.data.size());
      CHECK(c.getDataLength() != w.data.size() || memcmp(c.getData(), w.data.data(), w.data.size()) == 0 || w.data.empty(), "packet %zu: data bytes", i);
    } else if (w.kind == 4) {
      CHECK(p.getPayload().getType() == PayloadType::lin, "packet %zu: payload kind", i);
      auto& l = static_cast<const LinPayload&>(p.getPayload());
      CHECK(l.getLinId() == w.id, "packet %zu: LIN id", i); CHECK(l.getChecksum() == w.cks, "packet %zu: LIN checksum %u, wire %u", i, l.getChecksum(), w.cks);
      CHECK(l.getDataLength() == w.data.size(), "packet %zu: data length", i);
      CHECK(l.getDataLength() != w.data.size() || w.data.empty() || memcmp(l.getData(), w.data.data(), w.data.size()) == 0, "packet %zu: data bytes", i);
    } else if (w.kind == 5) {
      CHECK(p.getPayload().getType() == PayloadType::ifStatMsg, "packet %zu: payload kind", i);
      auto& f = static_cast<const InterfacePayload&>(p.getPayload());
      CHECK(f.getInterfaceId() == w.ifid && f.getMsgTotalRx() == w.msgs && f.getErrorsTotalRx() == w.errs, "packet %zu: interface id / counters", i);
    } else if (w.kind == 1) {
      CHECK(p.getPayload().getType() == PayloadType::cmStatMsg, "packet %zu: payload kind", i);
      auto& c = static_cast<const CaptureModulePayload&>(p.getPayload());
      CHECK(std::string(c.getSerialNumber()) == w.serial, "packet %zu: serial number '%s', wire '%s'", i, std::string(c.getSerialNumber()).c_str(), w.serial.c_str());
      CHECK(std::string(c.getHardwareVersion()) == w.hw && std::string(c.getSoftwareVersion()) == w.sw, "packet %zu: version strings", i);
    }
  }
  printf("packets=%zu violations=%d\n", got.size(), bad); return bad ? 3 : 0;
}
"""

def san_summary(err):
    """head of a sanitizer report: the error line and the first stack frames (the shadow-memory dump at the end says nothing)"""
    L = err.split('\n'); keep = []
    for i, l in enumerate(L):
        if 'does not point to an object of type' in l: continue      # UBSan vptr check on the library's down-casts of sliced Payload objects: not a memory error
        if 'ERROR: AddressSanitizer' in l or 'runtime error:' in l or 'SUMMARY:' in l or re.match(r'^(READ|WRITE) of size', l) or re.match(r'^\s+#[0-5] ', l): keep.append(l.strip())
    return '\n'.join(keep[:16])[:1500] or err[-600:]

def tecmp_frames(payload, first=None):
    """candidate frames around a counterexample payload: every supported and some unsupported kinds, and every truncation of the payload"""
    frames = []
    kinds = ((3, 2), (3, 3), (3, 4), (1, 0), (2, 0), (3, 0x80), (3, 0xFF), (3, 8), (4, 0), (0, 0), (10, 2))
    if first in kinds: kinds = (first,) + tuple(k for k in kinds if k != first)
    cuts = sorted(set([len(payload)] + list(range(0, min(len(payload), 48) + 1))), reverse=True)
    for mt, dt in kinds:
        for n in cuts:
            pl = payload[:n]
            h = bytearray(28); h[1] = 7; h[2:4] = (1).to_bytes(2, 'big'); h[4] = 3; h[5] = mt; h[6:8] = dt.to_bytes(2, 'big'); h[12:16] = (0x01020304).to_bytes(4, 'big')
            h[16:24] = (0x1122334455667788).to_bytes(8, 'big'); h[24:26] = max(len(pl), 1).to_bytes(2, 'big') if len(pl) <= 65535 else b'\xff\xff'
            frames.append(bytes(h) + pl)
    return frames

def tecmp_replay(doc, inp, r, work, root, repo):
    """C15 / C02 (TECMP): the counterexample's payload bytes are wrapped into TECMP frames of every kind (and every truncation) and decoded natively
    under ASan/UBSan; the result is compared with an independent TECMP parse"""
    code = PRE + TECMP_DRIVER
    exe = build_driver(work, repo, 'drv_tecmp', code)
    bufs = [bytes.fromhex(o['bytes']) for o in (inp or {}).get('objects', []) if 'bytes' in o]
    a = (inp or {}).get('args', {})
    size = a.get('size', a.get('n'))
    cands = []
    for b in reversed(bufs):
        cands.append(b[:size] if isinstance(size, int) and size <= len(b) else b)
    cands.append(bytes([0, 0, 1, 0x23, 8] + list(range(1, 9)) + [0xAA, 0xBB, 0xCC] + [i & 0xFF for i in range(40)]))     # default: a well-formed CAN payload and tail bytes
    frames = []
    if r['name'] == 'h_TECMP_Decoder_Decode' and bufs: frames.append(cands[0])
    nm = r['name'] + ' ' + (r.get('enforce') or '')
    first = (3, 4) if 'Lin' in nm else (1, 0) if 'CaptureModule' in nm else (2, 0) if 'Interface' in nm else (3, 2)
    for c in cands: frames += tecmp_frames(c, first)
    doc['native_expected'] = 'violations=0 and no sanitizer report'; doc['replay_driver'] = code
    seen = set()
    for f in frames:
        if f in seen: continue
        seen.add(f)
        try: p = subprocess.run([exe, f.hex()], stdout=subprocess.PIPE, stderr=subprocess.PIPE, timeout=60, env=dict(os.environ, ASAN_OPTIONS='detect_leaks=0', UBSAN_OPTIONS='halt_on_error=0'))
        except subprocess.TimeoutExpired:
            doc['native'] = 'reproduced'; doc['native_call'] = 'Decoder::decode(TECMP frame ' + f.hex() + ')'; doc['native_observed'] = 'no result within 60 s'; doc['replay_argv'] = [f.hex()]; return
        err = p.stderr.decode()
        if p.returncode != 0 or 'AddressSanitizer' in err:
            doc['native'] = 'reproduced'; doc['native_call'] = 'Decoder::decode(TECMP frame ' + f.hex() + ')'
            doc['native_observed'] = p.stdout.decode()[-600:] + ('' if p.returncode in (0, 3) else ' [exit %d]' % p.returncode); doc['native_stderr'] = san_summary(err); doc['replay_argv'] = [f.hex()]; return
    doc['native'] = 'not-reproduced'; doc['replay_argv'] = [frames[0].hex()]
tecmp_replay.optional_trace = True

DECODER_DRIVER = r'''
using namespace ASAM::CMP;
// Reference decoder written from the property statements (C04 C05 C06 C17 C18) and the wire layout, independent of the library:
// per endpoint one reassembly slot; unsegmented valid message -> close slot, deliver; invalid -> close, stop; first segment -> (re)open with the declared bytes, stop;
// continuing segment -> accepted iff open, same version and type, counter = previous + 1 mod 2^16; last -> deliver and close; anything else -> close.
struct RPkt { uint8_t ver; uint16_t dev; uint8_t stream; uint8_t mt; uint64_t ts; uint32_t id32; uint8_t flags; uint8_t pt; std::vector<uint8_t> bytes; };
struct RSlot { uint8_t ver, mt; uint16_t seq; std::vector<uint8_t> buf; };
#include <map>
static std::map<std::pair<uint16_t, uint8_t>, RSlot> rslots;
static unsigned be16(const uint8_t* p) { return (p[0] << 8) | p[1]; }
static RPkt mkref(const uint8_t* m, size_t len, uint8_t ver, uint16_t dev, uint8_t stream, uint8_t mt) {
  RPkt r; r.ver = ver; r.dev = dev; r.stream = stream; r.mt = mt; r.ts = 0; for (int i = 0; i < 8; ++i) r.ts = (r.ts << 8) | m[i];
  r.id32 = ((uint32_t)m[8] << 24) | (m[9] << 16) | (m[10] << 8) | m[11]; r.flags = m[12]; r.pt = m[13]; r.bytes.assign(m + 16, m + 16 + len); return r; }
static std::vector<RPkt> refdecode(const std::vector<uint8_t>& f) {
  std::vector<RPkt> out; if (f.size() < 8 || f[0] == 0) return out;
  uint16_t dev = be16(&f[2]); uint8_t stream = f[5], ver = f[0], mt = f[4]; uint16_t seq = be16(&f[6]); auto key = std::make_pair(dev, stream);
  size_t off = 8;
  while (off < f.size()) {
    size_t rem = f.size() - off;
    bool valid = rem >= 16 && be16(&f[off + 14]) <= rem - 16 && !(f[off + 12] & 0x40) && f[off + 13] != 0;
    if (!valid) { rslots.erase(key); break; }
    unsigned seg = (f[off + 12] >> 2) & 3; size_t len = be16(&f[off + 14]);
    if (seg == 0) { rslots.erase(key); out.push_back(mkref(&f[off], len, ver, dev, stream, mt)); off += 16 + len; continue; }
    if (seg == 1) { RSlot s{ver, mt, seq, std::vector<uint8_t>(f.begin() + off, f.begin() + off + 16 + len)}; rslots[key] = s; break; }
    auto it = rslots.find(key);
    if (it == rslots.end() || it->second.ver != ver || it->second.mt != mt || seq != (uint16_t)(it->second.seq + 1)) { rslots.erase(key); break; }
    RSlot& s = it->second; s.buf.insert(s.buf.end(), f.begin() + off + 16, f.begin() + off + 16 + len); s.seq = seq;
    if (seg == 3) { out.push_back(mkref(s.buf.data(), s.buf.size() - 16, s.ver, dev, stream, s.mt)); rslots.erase(key); }
    break; }
  return out; }
static uint64_t S = 88172645463325252ull; static uint64_t rnd() { S ^= S << 13; S ^= S >> 7; S ^= S << 17; return S; }
static void put16(std::vector<uint8_t>& v, size_t o, unsigned x) { v[o] = x >> 8; v[o + 1] = x & 0xff; }
static void msg(std::vector<uint8_t>& f, unsigned seg, size_t len) { size_t o = f.size(); f.resize(o + 16 + len); for (size_t i = o; i < f.size(); ++i) f[i] = (uint8_t)rnd();
  f[o + 12] = (uint8_t)((rnd() & 0x33) | (seg << 2)); if (rnd() % 24 == 0) f[o + 12] |= 0x40; f[o + 13] = (rnd() % 16) ? (uint8_t)(0xF0 | (rnd() & 7)) : 0; put16(f, o + 14, (unsigned)len); }
int main(int argc, char** argv) {
  long histories = argc > 1 ? atol(argv[1]) : 3000; int fails = 0;
  for (long h = 0; h < histories && !fails; ++h) {
    Decoder dec; rslots.clear();
    struct Ep { uint16_t dev; uint8_t stream; uint16_t seq; int inseg; } eps[3] = {{(uint16_t)(rnd() % 4 ? 0x0101 : rnd()), 1, (uint16_t)(rnd() % 3 ? 65533 + rnd() % 3 : rnd()), 0}, {0x0001, (uint8_t)(rnd() % 2 ? 1 : 2), (uint16_t)rnd(), 0}, {(uint16_t)(0x0100 | (rnd() & 3)), (uint8_t)(rnd() & 3), (uint16_t)rnd(), 0}};
    std::vector<std::vector<uint8_t>> sent;
    for (int fno = 0; fno < 14 && !fails; ++fno) {
      Ep& e = eps[rnd() % 3]; std::vector<uint8_t> f(8); f[0] = (rnd() % 12) ? 1 : (uint8_t)(1 + rnd() % 3); f[1] = 0; put16(f, 2, e.dev); f[4] = (rnd() % 10) ? 1 : (uint8_t)(rnd() % 2 ? 3 : 0xff); f[5] = e.stream;
      unsigned act = rnd() % 16;
      if (act == 0 && !sent.empty()) f = sent[rnd() % sent.size()];                       // duplicate / reordered old frame
      else { if (act == 1) e.seq += 1 + rnd() % 3;                                          // a lost frame
        put16(f, 6, e.seq); e.seq++;
        if (e.inseg || rnd() % 3 == 0) { unsigned sg = e.inseg ? (rnd() % 3 ? 2 : 3) : 1; if (rnd() % 14 == 0) sg = rnd() % 4; msg(f, sg, rnd() % 60); e.inseg = (sg == 1 || sg == 2); if (rnd() % 3 == 0) for (int k = rnd() % 24; k > 0; --k) f.push_back((uint8_t)rnd()); }
        else { int n = 1 + rnd() % 3; for (int m = 0; m < n; ++m) msg(f, 0, rnd() % 40); if (rnd() % 6 == 0) f.resize(f.size() + rnd() % 20, 0); }
        if (rnd() % 12 == 0) f.resize(rnd() % (f.size() + 1)); if (rnd() % 20 == 0) { f.assign(28 + rnd() % 30, 0); for (size_t i = 1; i < f.size(); ++i) f[i] = (uint8_t)rnd(); } }
      sent.push_back(f);
      bool tecmp = !f.empty() && f[0] == 0 && f.size() >= 8;
      auto got = dec.decode(f.empty() ? nullptr : f.data(), f.size()); auto exp = refdecode(f);
      char where[96]; snprintf(where, sizeof where, "history %ld frame %d (%zu bytes)", h, fno, f.size());
      if (!tecmp) {
        if (got.size() != exp.size()) { printf("VIOLATED: %s: %zu packets delivered, %zu expected\n", where, got.size(), exp.size()); ++fails; }
        for (size_t i = 0; i < got.size() && i < exp.size() && !fails; ++i) { const Packet& p = *got[i]; const RPkt& r = exp[i];
          bool ok = p.getVersion() == r.ver && p.getDeviceId() == r.dev && p.getStreamId() == r.stream && p.getTimestamp() == r.ts && p.getPayloadLength() == r.bytes.size() &&
                    (uint8_t)p.getPayload().getMessageType() == r.mt && p.getPayload().getRawPayloadType() == r.pt && (p.getCommonFlags() & ~0x0C) == (r.flags & ~0x0C) &&
                    (r.mt != 1 || p.getInterfaceId() == r.id32) && ((r.mt != 3 && r.mt != 0xff) || p.getVendorId() == (r.id32 & 0xffff)) &&
                    (r.bytes.empty() || memcmp(p.getPayload().getRawPayload(), r.bytes.data(), r.bytes.size()) == 0);
          if (!ok) { printf("VIOLATED: %s: packet %zu differs from the wire / from the sent message (length %u vs %zu, device %u vs %u, stream %u vs %u)\n", where, i, p.getPayloadLength(), r.bytes.size(), p.getDeviceId(), r.dev, p.getStreamId(), r.stream); ++fails; } } }
      size_t pend = 0; for (auto& kv : dec.segmentedPackets) pend += kv.second.payload.size(); size_t rp = 0; for (auto& kv : rslots) rp += kv.second.buf.size();
      if (!fails && (dec.segmentedPackets.size() != rslots.size() || pend != rp)) { printf("VIOLATED: %s: decoder holds %zu pending entries / %zu bytes, reference %zu / %zu\n", where, dec.segmentedPackets.size(), pend, rslots.size(), rp); ++fails; }
      if (fails) { printf("history so far (hex):\n"); for (auto& x : sent) hex(x.data(), x.size()); } } }
  printf("violations=%d\n", fails); return fails ? 3 : 0; }
'''

def decoder_replay(doc, inp, r, work, root, repo):
    """decoder obligations (C02 C04 C05 C06 C17 C18): the verifier's one-step counterexample starts from an arbitrary reassembly slot, which is not an API input;
    the driver searches frame histories natively instead - three endpoints (two of which collide under a sloppy key), segmented / unsegmented / faulty / truncated /
    padded frames, counters across the wrap - against a reference decoder written from the property statements (ASan + UBSan build)"""
    code = PRE + DECODER_DRIVER
    exe = build_driver(work, repo, 'drv_decoder', code)
    doc['native_expected'] = 'violations=0 (reference reassembly automaton, per-endpoint pending state, sanitizers)'
    doc['native_call'] = 'decoder history search: 4000 random histories of 14 frames over 3 endpoints'; doc['replay_driver'] = code; doc['replay_argv'] = ['4000']
    p = subprocess.run([exe, '4000'], stdout=subprocess.PIPE, stderr=subprocess.PIPE, timeout=900, env=dict(os.environ, ASAN_OPTIONS='detect_leaks=0'))
    if p.returncode != 0:
        doc['native_observed'] = p.stdout.decode()[-2500:]; doc['native_stderr'] = san_summary(p.stderr.decode()) if p.stderr else ''; doc['native'] = 'reproduced'; return
    doc['native'] = 'not-reproduced'; doc['native_observed'] = p.stdout.decode()[-200:]
decoder_replay.history_search = True

BUILDER_DRIVER = r'''
using namespace ASAM::CMP;
// Payload builders (C13 C20 C12): every builder is called on objects with random PRIOR state (fresh, built from random wire bytes, or already filled with longer /
// shorter data) and the raw bytes are compared with an expectation written from the wire layout: header bytes kept (zero where the object was shorter), length / DLC /
// count fields, data, NUL terminator, zero padding to even length, total size; the library's own validator must accept the result and the getters return the input.
static uint64_t S = 0x2545F4914F6CDD1Dull; static uint64_t rnd() { S ^= S << 13; S ^= S >> 7; S ^= S << 17; return S; }
static int fails = 0;
#define CHECK(c, ...) do { if (!(c)) { if (fails < 8) { printf("VIOLATED: "); printf(__VA_ARGS__); printf("\n"); } ++fails; } } while (0)
static std::vector<uint8_t> rbytes(size_t n) { std::vector<uint8_t> v; v.reserve(n + 1); v.resize(n); for (auto& b : v) b = (uint8_t)(rnd() | 1); return v; }   // non-zero: stale bytes are visible
static std::vector<uint8_t> raw(const Payload& p) { return std::vector<uint8_t>(p.getRawPayload(), p.getRawPayload() + p.getLength()); }
static int dlcOf(unsigned n) { if (n <= 8) return (int)n; switch (n) { case 12: return 9; case 16: return 10; case 20: return 11; case 24: return 12; case 32: return 13; case 48: return 14; case 64: return 15; } return -1; }
template <class P> static P prior(size_t hdr) {   // an object in an arbitrary earlier state
  switch (rnd() % 3) { case 0: return P(); default: { auto b = rbytes(hdr + rnd() % 90); return P(b.data(), b.size()); } } }
static void keep(const char* what, const std::vector<uint8_t>& before, const std::vector<uint8_t>& after, size_t upto) {
  for (size_t i = 0; i < upto && i < after.size(); ++i) { uint8_t exp = i < before.size() ? before[i] : 0; if (after[i] != exp) { CHECK(false, "%s: header byte %zu changed from %02x to %02x", what, i, exp, after[i]); return; } } }
static size_t strl(size_t n) { return (n + 1) + ((n + 1) & 1); }
int main(int argc, char** argv) {
  long N = argc > 1 ? atol(argv[1]) : 4000;
  for (long it = 0; it < N && fails < 8; ++it) {
    { bool fd = rnd() & 1; unsigned n = rnd() % 3 ? (unsigned[]){0, 1, 7, 8, 12, 16, 20, 24, 32, 48, 64}[rnd() % 11] : rnd() % 256; auto d = rbytes(n);
      auto chk = [&](CanPayloadBase& p, const char* w) { auto b = raw(p); if (rnd() & 1) { auto d0 = rbytes(rnd() % 256); p.setData(d0.data(), (uint8_t)d0.size()); b = raw(p); }
        p.setData(d.data(), (uint8_t)n); auto a = raw(p);
        CHECK(a.size() == 16 + n, "%s setData(%u bytes): size %zu", w, n, a.size()); if (a.size() != 16 + n) return;
        keep(w, b, a, 14); CHECK(a[15] == n, "%s data length field %u for %u bytes", w, a[15], n); CHECK(a[14] <= 15 && (dlcOf(n) < 0 || a[14] == dlcOf(n)), "%s DLC %u for %u bytes", w, a[14], n);
        CHECK(n == 0 || memcmp(&a[16], d.data(), n) == 0, "%s data bytes", w); CHECK(p.getDataLength() == n && (n == 0 || memcmp(p.getData(), d.data(), n) == 0), "%s getters", w); };
      if (fd) { auto p = prior<CanFdPayload>(16); chk(p, "CanFdPayload"); } else { auto p = prior<CanPayload>(16); chk(p, "CanPayload"); } }
    { unsigned n = rnd() % 256; auto d = rbytes(n); auto p = prior<LinPayload>(8); auto b = raw(p); p.setData(d.data(), (uint8_t)n); auto a = raw(p);
      CHECK(a.size() == 8 + n, "LinPayload size"); if (a.size() == 8 + n) { keep("LinPayload", b, a, 7); CHECK(a[7] == n, "LinPayload length field"); CHECK(n == 0 || memcmp(&a[8], d.data(), n) == 0, "LinPayload data"); CHECK(LinPayload::isValidPayload(a.data(), a.size()), "LinPayload not self-valid"); } }
    { unsigned n = rnd() % 4 ? rnd() % 300 : rnd() % 65530; auto d = rbytes(n); auto p = prior<EthernetPayload>(6); auto b = raw(p); p.setData(d.data(), (uint16_t)n); auto a = raw(p);
      CHECK(a.size() == 6 + (size_t)n, "EthernetPayload size"); if (a.size() == 6 + (size_t)n) { keep("EthernetPayload", b, a, 4); CHECK(((a[4] << 8) | a[5]) == (int)n, "EthernetPayload length field"); CHECK(n == 0 || memcmp(&a[6], d.data(), n) == 0, "EthernetPayload data"); } }
    { unsigned n = rnd() % 400; auto d = rbytes(n); auto p = prior<AnalogPayload>(16); auto b = raw(p); p.setData(d.data(), n); auto a = raw(p);
      CHECK(a.size() == 16 + (size_t)n, "AnalogPayload size"); if (a.size() == 16 + (size_t)n) { keep("AnalogPayload", b, a, 16); CHECK(n == 0 || memcmp(&a[16], d.data(), n) == 0, "AnalogPayload data"); } }
    { unsigned c = rnd() % 9, v = rnd() % 9; auto ids = rbytes(c), vd = rbytes(v); auto p = prior<InterfacePayload>(40); auto b = raw(p);
      if (rnd() & 1) { auto i0 = rbytes(2 + rnd() % 8), v0 = rbytes(rnd() % 8); p.setData(i0.data(), (uint16_t)i0.size(), v0.data(), (uint16_t)v0.size()); b = raw(p); }
      p.setData(ids.data(), (uint16_t)c, vd.data(), (uint16_t)v); auto a = raw(p); size_t pad = c & 1, exp = 36 + 2 + c + pad + 2 + v;
      CHECK(a.size() == exp, "InterfacePayload setData(%u ids, %u vendor bytes): size %zu expected %zu", c, v, a.size(), exp);
      if (a.size() == exp) { keep("InterfacePayload", b, a, 36); CHECK(((a[36] << 8) | a[37]) == (int)c, "InterfacePayload stream id count field"); CHECK(c == 0 || memcmp(&a[38], ids.data(), c) == 0, "InterfacePayload stream ids");
        CHECK(!pad || a[38 + c] == 0, "InterfacePayload: padding byte after %u stream ids is %02x, not 00", c, a[38 + c]); CHECK(((a[38 + c + pad] << 8) | a[39 + c + pad]) == (int)v, "InterfacePayload vendor length field");
        CHECK(v == 0 || memcmp(&a[40 + c + pad], vd.data(), v) == 0, "InterfacePayload vendor data"); CHECK(a[29] > 2 || InterfacePayload::isValidPayload(a.data(), a.size()), "InterfacePayload not self-valid");     /* (an interface status byte > 2 left over from the prior state is rejected by design) */ } }
    { std::string st[4]; for (auto& x : st) { size_t n = rnd() % 12; for (size_t i = 0; i < n; ++i) x.push_back((char)('A' + rnd() % 26)); }
      auto big = rbytes(64); std::vector<uint8_t> vd = rbytes(rnd() % 7); CaptureModulePayload p; auto b = raw(p);
      if (rnd() & 1) { std::string l0(20 + rnd() % 10, 'z'); std::vector<uint8_t> v0 = rbytes(9); p.setData(l0, l0, l0, l0, v0); b = raw(p); }
      size_t views[4]; for (int k = 0; k < 4; ++k) views[k] = st[k].size();
      // string_views that are NOT NUL-terminated: prefixes of longer texts
      std::string ext[4]; for (int k = 0; k < 4; ++k) ext[k] = st[k] + "#tail";
      p.setData(std::string_view(ext[0].data(), views[0]), std::string_view(ext[1].data(), views[1]), std::string_view(ext[2].data(), views[2]), std::string_view(ext[3].data(), views[3]), vd); auto a = raw(p);
      size_t off = 26; bool ok = true;
      for (int k = 0; k < 4 && ok; ++k) { size_t L = strl(views[k]); if (off + 2 + L > a.size()) { ok = false; break; }
        CHECK((size_t)((a[off] << 8) | a[off + 1]) == L, "CaptureModulePayload string %d length field", k); CHECK(views[k] == 0 || memcmp(&a[off + 2], st[k].data(), views[k]) == 0, "CaptureModulePayload string %d bytes", k);
        for (size_t i = views[k]; i < L; ++i) CHECK(a[off + 2 + i] == 0, "CaptureModulePayload string %d (\"%s\"): terminator / padding byte %zu is %02x, not 00", k, st[k].c_str(), i - views[k], a[off + 2 + i]);
        off += 2 + L; }
      CHECK(ok && a.size() == off + 2 + vd.size(), "CaptureModulePayload total size %zu", a.size());
      if (ok && a.size() == off + 2 + vd.size()) { keep("CaptureModulePayload", b, a, 26); CHECK((size_t)((a[off] << 8) | a[off + 1]) == vd.size(), "CaptureModulePayload vendor length"); CHECK(vd.empty() || memcmp(&a[off + 2], vd.data(), vd.size()) == 0, "CaptureModulePayload vendor data");
        CHECK(CaptureModulePayload::isValidPayload(a.data(), a.size()), "CaptureModulePayload not self-valid"); CHECK(p.getSerialNumber() == st[1] && p.getDeviceDescription() == st[0], "CaptureModulePayload string getters"); } } }
  printf("violations=%d\n", fails); return fails ? 3 : 0; }
'''

def builder_replay(doc, inp, r, work, root, repo):
    """payload builders: native search over prior object states and inputs against a byte-level expectation written from the wire layout"""
    code = PRE + BUILDER_DRIVER
    exe = build_driver(work, repo, 'drv_builder', code)
    doc['native_expected'] = 'violations=0 (byte-level expectation from the wire layout, self-validity, getters)'
    doc['native_call'] = 'payload builder search: 4000 rounds over all builders, random prior object state'; doc['replay_driver'] = code; doc['replay_argv'] = ['4000']
    p = subprocess.run([exe, '4000'], stdout=subprocess.PIPE, stderr=subprocess.PIPE, timeout=900, env=dict(os.environ, ASAN_OPTIONS='detect_leaks=0'))
    if p.returncode != 0:
        doc['native_observed'] = p.stdout.decode()[-2000:]; doc['native_stderr'] = san_summary(p.stderr.decode()) if p.stderr else ''; doc['native'] = 'reproduced'; return
    doc['native'] = 'not-reproduced'; doc['native_observed'] = p.stdout.decode()[-200:]
builder_replay.history_search = True

def family_of(r, root):
    name = r['name']
    if re.match(r'^h_(CanPayloadBase|LinPayload|EthernetPayload|AnalogPayload|InterfacePayload|CaptureModulePayload)_(setData|fillWithString|encodeDlc)$', name): return builder_replay
    if name in ('h_Decoder_decode', 'h_Endpoint_op_eq', 'h_EndpointHash', 'h_SegmentedPacket_make', 'h_SegmentedPacket_getPacket'): return decoder_replay
    if name.startswith('h_TECMP_'): return tecmp_replay
    if name.startswith(('h_Status_', 'h_DeviceStatus_', 'h_InterfaceStatus_')): return status_replay
    if name.startswith(('h_Payload_op_eq', 'h_TECMP_Payload_op_eq', 'h_Packet_op_eq', 'h_Packet_op_ne', 'h_Packet_copy_assign', 'h_Packet_self_assign')): return value_replay
    if 'Encoder_' in (r['enforce'] or '') or name.startswith('lemma_') and 'batch' in name: return encoder_replay
    if (r['enforce'] or '') in VALIDATORS: return validator_replay
    if name == 'h_' + (r['enforce'] or '') and (r['enforce'] or '').startswith(ACCESSOR_CLASSES) and re.search(r'_get(Data|SamplesCount|DeviceDescription|SerialNumber|HardwareVersion|SoftwareVersion|VendorData\w*|StreamIds\w*)$', r['enforce']): return clause_replay
    if (r['enforce'] or '').endswith('Packet_create') or 'Packet_ctor__CmpHeader_MessageType' in (r['enforce'] or ''): return packet_kind_replay
    if 'SegmentedPacket_ctor__uint8' in (r['enforce'] or '') or (r['enforce'] or '').endswith('SegmentedPacket_addSegment'): return segpkt_replay
    import gen_layout_specs as G
    classes, payloads = G.parse(os.path.join(root, 'specs', 'layout', 'wire.tbl'))
    fn = r['enforce'] or ''
    for q, cls in classes.items():
        cn = G.cname(q)
        for f in cls['fields'].values():
            for role in ('get', 'set'):
                if f[role] and fn == cn + '_' + f[role]:
                    return lambda doc, inp, r, work, root, repo: accessor_replay(doc, inp, r, work, repo, q, None, cls, f, role, f[role])
    for p in payloads:
        cls = classes[p['header']]; cn = G.cname(p['name'])
        for fw in p['fw']:
            f = cls['fields'][fw['field']]
            for role in ('get', 'set'):
                if fw[role] and fn == cn + '_' + fw[role]:
                    return lambda doc, inp, r, work, root, repo: accessor_replay(doc, inp, r, work, repo, p['name'], p, cls, f, role, fw[role])
    return None

def table_word(bs, f):
    return int.from_bytes(bs[f['off']:f['off'] + f['width']], 'big')

def accessor_replay(doc, inp, r, work, repo, q, payload, cls, f, role, method):
    doc['replay_argv'] = None
    size = cls['size']
    objs = [o for o in inp['objects'] if 'bytes' in o]
    if payload is None:
        if not objs: doc['native'] = 'no-counterexample'; return
        bs = bytes.fromhex(objs[0]['bytes'])[:size].ljust(size, b'\0')
    else:
        # the payload buffer has symbolic length: its bytes are not in the trace; the header window is what matters,
        # use the bytes if present, otherwise zeros (recorded in the replay file)
        cand = [o for o in objs if len(o['bytes']) // 2 >= size]
        n = None
        for o in inp['objects']:
            for k, v in o.get('fields', {}).items():
                if k.endswith('payloadData.n') and v: n = int(re.sub(r'[a-z]+$', '', v))
        bs = bytes.fromhex(cand[-1]['bytes']) if cand else bytes(size)
        if n is not None and size <= n <= len(bs): bs = bs[:n]
        doc['payload_bytes_from_trace'] = bool(cand)
    a = inp['args']
    kind = f['kind']
    v = a.get('v', 0); m = a.get('m', 0)
    W = table_word(bs, f); w = f['width']; full = (1 << (8 * w)) - 1
    argt = {'uint': 'uint64_t', 'enum': 'uint64_t', 'bits': 'uint64_t', 'bool': 'bool', 'float': 'float', 'maskflag': 'bool'}[kind]
    cls_cpp = q
    call_args = ''
    if role == 'set':
        v &= (1 << 64) - 1
        if kind == 'maskflag': NW = (W | (m & full)) if v else (W & ~m & full)
        elif kind == 'bool': NW = (W | f['mask']) if v else (W & ~f['mask'] & full)
        elif kind == 'bits':
            vv = (v & ((1 << 32) - 1 if w <= 4 else (1 << 64) - 1)) >> f['retshl']
            NW = (W & ~f['mask'] & full) | ((vv << f['shift']) & f['mask'])
        else: NW = v & full
        exp = bytearray(bs); exp[f['off']:f['off'] + w] = NW.to_bytes(w, 'big')
        expected = bytes(exp).hex()
    else:
        if kind == 'maskflag': expected = str(int((W & m & full) != 0))
        elif kind == 'bool': expected = str(int((W & f['mask']) != 0))
        elif kind == 'bits': expected = str(((W & f['mask']) >> f['shift']) << f['retshl'])
        else: expected = str(W)
    # C++ driver
    code = PRE + 'int main(int argc, char** argv) {\n  auto in = unhex(argv[1]); unsigned long long v = strtoull(argv[2], 0, 10); unsigned long long m = strtoull(argv[3], 0, 10); (void)v; (void)m;\n'
    if payload is None:
        code += f'  alignas(16) uint8_t buf[{size}]; memcpy(buf, in.data(), {size}); auto* o = reinterpret_cast<{cls_cpp}*>(buf);\n'
        target = 'o->'; dump = f'hex(buf, {size});'
    else:
        code += f'  {payload.get("native") or cls_cpp} obj(in.data(), in.size()); {cls_cpp}* o = &obj;\n'
        target = 'o->'; dump = 'hex(o->getRawPayload(), o->getLength());'
    def arg_expr(kind):
        if kind == 'float': return 'uf'
        if kind in ('bool',): return '(v != 0)'
        return f'static_cast<decltype(probe_arg(&{cls_cpp}::{method}))>(v)'
    if role == 'set':
        if kind == 'maskflag':
            code += f'  {target}{method}(static_cast<decltype(probe_arg(&{cls_cpp}::{method}))>(m), v != 0);\n'
        elif kind == 'float':
            code += f'  float uf; uint32_t u = (uint32_t)v; memcpy(&uf, &u, 4); {target}{method}(uf);\n'
        else:
            code += f'  {target}{method}({arg_expr(kind)});\n'
        code += '  ' + dump + '\n'
    else:
        if kind == 'maskflag':
            code += f'  auto rv = {target}{method}(static_cast<decltype(probe_arg(&{cls_cpp}::{method}))>(m));\n'
        else:
            code += f'  auto rv = {target}{method}();\n'
        if kind == 'float': code += '  uint32_t u; float fv = rv; memcpy(&u, &fv, 4); printf("%llu\\n", (unsigned long long)u);\n'
        else: code += '  printf("%llu\\n", (unsigned long long)rv);\n'
    code += '  return 0;\n}\n'
    # helper to deduce the first parameter type of a member function
    probe = 'template <class C, class R, class A, class... Rest> A probe_arg(R (C::*)(A, Rest...));\ntemplate <class C, class R, class A, class... Rest> A probe_arg(R (C::*)(A, Rest...) const);\n'
    code = code.replace('int main(', probe + 'int main(', 1)
    exe = build_driver(work, repo, 'drv_' + hashlib.md5((q + method).encode()).hexdigest()[:10], code)
    p = subprocess.run([exe, bs.hex(), str(v), str(m)], stdout=subprocess.PIPE, stderr=subprocess.PIPE, timeout=60)
    doc['replay_argv'] = [bs.hex(), str(v), str(m)]
    got = p.stdout.decode().strip().split('\n')[-1] if p.stdout else ''
    doc['native_call'] = f"{cls_cpp}::{method} on bytes {bs.hex()} with v={v} m={m}"
    doc['native_expected'] = expected; doc['native_observed'] = got; doc['native_stderr'] = p.stderr.decode()[-600:]
    if role == 'set' and payload is not None:
        got_cmp = got[:2 * size]; exp_cmp = expected[:2 * size]
    else: got_cmp, exp_cmp = got, expected
    doc['native'] = 'reproduced' if (p.returncode != 0 or got_cmp != exp_cmp) else 'not-reproduced'
    doc['replay_driver'] = code

def replay_file(path, root, repo):
    d = json.load(open(path))
    print(json.dumps({k: d.get(k) for k in ('property', 'label', 'function_cxx', 'native', 'native_call', 'native_expected', 'native_observed')}, indent=1))
    if d.get('replay_driver') and d.get('replay_argv') is not None:
        work = os.path.join(root, '.work', 'replay.%d' % os.getpid()); os.makedirs(work, exist_ok=True)
        try:
            exe = build_driver(work, repo, 'drv_replay', d['replay_driver'])
            p = subprocess.run([exe] + d['replay_argv'], stdout=subprocess.PIPE, stderr=subprocess.PIPE, timeout=120)
            got = p.stdout.decode().strip().split('\n')[-1] if p.stdout else ''
            print('observed now:', got, '| rc', p.returncode, '| expected:', d.get('native_expected'))
            if p.stderr: print(p.stderr.decode()[-1500:])
            bad = p.returncode != 0 or (d.get('native_expected') is not None and re.match(r'^[0-9a-f]*$', d['native_expected'] or 'x') and got != d['native_expected'])
            print('REPRODUCED' if bad else 'NOT REPRODUCED on the current tree')
            return 1 if bad else 0
        finally:
            shutil.rmtree(work, ignore_errors=True)
    return 0
