#!/bin/bash
# usage: seed_confirm.sh <mutant dir containing patch.diff demo.cpp meta.json> <id>
# confirms in a scratch worktree: patch applies, builds with project flags, all tests pass, demo passes without and fails with the patch
set -u
M=$1; ID=$2; W=/tmp/mut/confirm/$ID
rm -rf $W; git -C /repo worktree prune; git -C /repo worktree add -q --detach $W HEAD || exit 9
cd $W
BUILD_DEMO="g++ -std=c++17 -pthread -fno-access-control -I include $M/demo.cpp src/*.cpp -o /tmp/mut/confirm/demo_$ID"   # -fno-access-control: some demonstrations observe private state (e.g. the reassembly map)
$BUILD_DEMO 2>/tmp/mut/confirm/$ID.demo0.log; ./../demo_$ID >/tmp/mut/confirm/$ID.run0.log 2>&1; RC0=$?
git apply $M/patch.diff || { echo "$ID: PATCH DOES NOT APPLY"; exit 8; }
cmake -G Ninja -B _build -DCMAKE_BUILD_TYPE=RelWithDebInfo >/dev/null 2>&1 && cmake --build _build >/tmp/mut/confirm/$ID.build.log 2>&1; BRC=$?
T=$(./_build/bin/test_asam_cmp 2>&1 | tail -1)
$BUILD_DEMO 2>/tmp/mut/confirm/$ID.demo1.log; ./../demo_$ID >/tmp/mut/confirm/$ID.run1.log 2>&1; RC1=$?
echo "$ID: demo_without=$RC0 build=$BRC tests='$T' demo_with=$RC1"
cd /; git -C /repo worktree remove --force $W; rm -f /tmp/mut/confirm/demo_$ID
