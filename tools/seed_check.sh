#!/bin/bash
# usage: seed_check.sh <mutant dir> <id> <property> [extra vf args]   -- runs the property's check against a scratch worktree with the patch applied
# (harness runs whose verified text is unaffected by the patch are reused from the content-addressed store; VERIF_NOCACHE=1 forces all of them)
set -u
M=$1; ID=$2; P=$3; shift 3
W=/tmp/mut/run/$ID
mkdir -p /tmp/mut/run/evidence
rm -rf $W; git -C /repo worktree prune; git -C /repo worktree add -q --detach $W HEAD || exit 9
git -C $W apply $M/patch.diff || { echo "$ID: PATCH DOES NOT APPLY"; git -C /repo worktree remove --force $W; exit 8; }
cd /verif && VERIF_REPO=$W VERIF_EVIDENCE_DIR=/tmp/mut/run/evidence ./vf check $P --quick "$@" > /tmp/mut/run/$ID.$P.log 2>&1; RC=$?
echo "$ID $P exit=$RC $(grep -c '^VIOLATION' /tmp/mut/run/$ID.$P.log) violation line(s); $(grep '^VIOLATION' /tmp/mut/run/$ID.$P.log | head -2 | cut -c1-260 | tr '\n' ' ')"
git -C /repo worktree remove --force $W
