#!/usr/bin/env python3
"""Debug helper: compact print of a clang JSON AST dump (filtered)."""
import json, sys
def load_docs(path):
    s = open(path).read(); dec = json.JSONDecoder(); i = 0; out = []
    while i < len(s):
        while i < len(s) and s[i] in ' \n\r\t': i += 1
        if i >= len(s): break
        if s.startswith('Dumping', i):
            i = s.index('\n', i) + 1; continue
        o, j = dec.raw_decode(s, i); out.append(o); i = j
    return out
KEYS = ('name','opcode','castKind','value','isArrow','referencedMemberDecl','mangledName','isImplicit','storageClass','explicitlyDefaulted','constexpr','previousDecl','parentDeclContextId','tagUsed','valueCategory','path','ctorType','elidable','constructionKind','anyInit','baseInit','init','isPostfix','computeLHSType','computeResultType','argType','fixedUnderlyingType','completeDefinition','isReferenced','list','zeroing','conversionFunc','bases','inline','isBitfield','nrvo','tls','initStyle','delegatingInit','explicitlyDeleted','variadic','virtual','pure')
def show(n, depth=0, maxdepth=99):
    k = n.get('kind')
    extra = {x: n[x] for x in KEYS if x in n}
    if 'type' in n:
        extra['type'] = n['type'].get('qualType')
        if 'desugaredQualType' in n['type']: extra['dtype'] = n['type']['desugaredQualType']
    if 'referencedDecl' in n:
        r = n['referencedDecl']; extra['ref'] = (r.get('kind'), r.get('name'), r.get('id'), r.get('type', {}).get('qualType'))
    if 'definitionData' in n: extra['dd'] = {a: b for a, b in n['definitionData'].items() if a in ('isTriviallyCopyable','isPOD','isAggregate','isPolymorphic','isTrivial')}
    print('  ' * depth + str(k) + ' ' + n.get('id', '') + ' ' + json.dumps(extra)[:420])
    if depth < maxdepth:
        for c in n.get('inner', []): show(c, depth + 1, maxdepth)
if __name__ == '__main__':
    path = sys.argv[1]; pat = sys.argv[2] if len(sys.argv) > 2 else None
    md = int(sys.argv[3]) if len(sys.argv) > 3 else 99
    for d in load_docs(path):
        def find(n):
            if pat is None or n.get('name') == pat:
                show(n, 0, md); print('-----'); return
            for c in n.get('inner', []): find(c)
        find(d)
