#!/usr/bin/env python3
"""cxx2c - mechanical translation of the library's C++ (clang JSON AST) to C for CBMC.

Input : clang -ast-dump=json (filtered) of every src/*.cpp of /repo plus one /verif TU
        that explicitly instantiates the Encoder::encode templates.
Output: one C translation unit (types, prototypes, function bodies) with the contracts,
        loop contracts and ghost code of /verif/specs spliced in.

Rules are fixed; any AST node, type or std:: entity without a rule raises Unsupported.
An untranslatable function must be listed in specs/excluded.txt, otherwise the run
aborts (exit 2) - an extraction break is never reported as a violation.
"""
import json, re, sys, os, collections

class Unsupported(Exception):
    pass

# --------------------------------------------------------------------------- loading

def load_docs(path):
    s = open(path).read(); dec = json.JSONDecoder(); i = 0; out = []
    n = len(s)
    while i < n:
        while i < n and s[i] in ' \n\r\t': i += 1
        if i >= n: break
        if s.startswith('Dumping', i):
            i = s.index('\n', i) + 1; continue
        o, j = dec.raw_decode(s, i); out.append(o); i = j
    return out

BUILTIN = {
    'unsigned char': 'uint8_t', 'unsigned short': 'uint16_t', 'unsigned int': 'uint32_t', 'unsigned long': 'uint64_t',
    'signed char': 'int8_t', 'short': 'int16_t', 'int': 'int', 'long': 'int64_t', 'bool': '_Bool', 'float': 'float',
    'double': 'double', 'char': 'char', 'void': 'void', 'unsigned long long': 'uint64_t', 'long long': 'int64_t',
    'uint8_t': 'uint8_t', 'uint16_t': 'uint16_t', 'uint32_t': 'uint32_t', 'uint64_t': 'uint64_t',
    'int8_t': 'int8_t', 'int16_t': 'int16_t', 'int32_t': 'int32_t', 'int64_t': 'int64_t',
    'size_t': 'size_t', 'std::size_t': 'size_t', 'std::nullptr_t': 'void *', 'ptrdiff_t': 'int64_t',
}

def cname(q):
    return re.sub(r'[^A-Za-z0-9_]', '_', q.replace('::', '_'))

def tstr(t):
    """clang type object -> canonical-ish string"""
    return t.get('desugaredQualType', t['qualType'])

def split_targs(s):
    """split 'a<b,c>, d' at top-level commas"""
    out = []; depth = 0; cur = ''
    for ch in s:
        if ch in '<(': depth += 1
        if ch in '>)': depth -= 1
        if ch == ',' and depth == 0:
            out.append(cur.strip()); cur = ''
        else: cur += ch
    if cur.strip(): out.append(cur.strip())
    return out

def norm_std(q):
    """normalise spelling of a std type string"""
    q = q.replace('std::__cxx11::', 'std::')
    q = re.sub(r'\bclass |\bstruct |\benum ', '', q)
    # member typedefs of smart pointers that clang leaves sugared below a pointer/reference
    m = re.match(r'^(const )?std::__shared_ptr_access<(.*)>::element_type(.*)$', q)
    if m:
        q = (m.group(1) or '') + split_targs(m.group(2))[0] + m.group(3)
    m = re.match(r'^(const )?std::unique_ptr<(.*)>::pointer(.*)$', q)
    if m:
        q = split_targs(m.group(2))[0] + ' *' + ('const' if m.group(1) else '') + m.group(3)
    return q.strip()

# --------------------------------------------------------------------------- std type models

def strip_alloc(q):
    # std::vector<T, std::allocator<T>> -> std::vector<T>
    m = re.match(r'^std::vector<(.*)>$', q)
    if m:
        args = split_targs(m.group(1))
        return 'std::vector<' + strip_alloc(args[0]) + '>'
    m = re.match(r'^std::(unique_ptr|shared_ptr|__shared_ptr|__shared_ptr_access)<(.*)>$', q)
    if m:
        args = split_targs(m.group(2))
        return 'std::' + {'__shared_ptr': 'shared_ptr', '__shared_ptr_access': 'shared_ptr'}.get(m.group(1), m.group(1)) + '<' + args[0] + '>'
    return q

UINT8 = ('unsigned char', 'uint8_t')

class Ctx:
    def __init__(self):
        self.records = collections.OrderedDict()   # qname -> Rec
        self.enums = collections.OrderedDict()     # qname -> Enum
        self.funcs = collections.OrderedDict()     # key(mangled) -> Fn
        self.anon = {}                             # (parent qname, tag) -> [qname]
        self.typedefs = {}
        self.excluded = {}
        self.generated = collections.OrderedDict() # helper functions generated on demand: name -> text
        self.protos_extra = collections.OrderedDict()
        self.vec_structs = collections.OrderedDict()  # element-vector models generated on demand
        self.globals = {}

class Rec:
    def __init__(self, q, node, tu):
        self.q = q; self.node = node; self.tu = tu
        self.union = node.get('tagUsed') == 'union'
        self.packed = any(c.get('kind') == 'MaxFieldAlignmentAttr' for c in node.get('inner', []))
        self.bases = []   # qnames
        self.fields = []  # (name or None, type obj, node)
        dd = node.get('definitionData', {})
        self.trivially_copyable = bool(dd.get('isTriviallyCopyable'))
        self.polymorphic = bool(dd.get('isPolymorphic'))
        self.ctors = []   # Fn

class Enum:
    def __init__(self, q, node):
        self.q = q; self.node = node
        ut = node.get('fixedUnderlyingType')
        self.scoped = 'scopedEnumTag' in node
        self.consts = collections.OrderedDict()
        for c in node.get('inner', []):
            if c.get('kind') == 'EnumConstantDecl':
                v = None
                for x in c.get('inner', []):
                    if x.get('kind') == 'ConstantExpr' and 'value' in x: v = int(x['value'])
                    elif x.get('kind') == 'ImplicitCastExpr':
                        for y in x.get('inner', []):
                            if y.get('kind') == 'ConstantExpr' and 'value' in y: v = int(y['value'])
                self.consts[c['name']] = v
        if ut: self.ctype = BUILTIN[tstr(ut)]
        else: self.ctype = 'uint32_t'     # unnamed/unscoped enums of the library: all values 0..0xFFFF (checked below)
        # fill implicit values
        prev = -1
        for k in list(self.consts):
            if self.consts[k] is None: self.consts[k] = prev + 1
            prev = self.consts[k]
        if not ut:
            for k, v in self.consts.items():
                if v < 0 or v > 0x7fffffff: raise Unsupported('unscoped enum value out of int range: ' + q)

class Fn:
    def __init__(self):
        self.node = None; self.tu = None; self.q = None; self.rec = None; self.kind = None
        self.static = False; self.const = False; self.params = []; self.ret = None
        self.body = None; self.cname = None; self.mangled = None; self.inits = []; self.ctype_sig = None
        self.implicit = False; self.defaulted = False; self.name = None

class TU:
    """one clang invocation: decl ids are only meaningful inside it"""
    def __init__(self, ctx, path):
        self.ctx = ctx; self.path = path; self.byid = {}; self.fn_by_id = {}; self.scope_of = {}
        self.lambda_count = 0
        self.sugar = {}

    def index_all(self, docs):
        for d in docs:
            self.collect_sugar(d)
            self.index(d, [])

    def collect_sugar(self, n):
        stack = [n]; sugar = self.sugar
        while stack:
            x = stack.pop()
            if isinstance(x, dict):
                if 'qualType' in x and 'desugaredQualType' in x:
                    a = norm_std(x['qualType']); b = norm_std(x['desugaredQualType'])
                    if a != b and a not in sugar: sugar[a] = b
                for v in x.values():
                    if isinstance(v, (dict, list)): stack.append(v)
            elif isinstance(x, list):
                stack.extend(x)

    def anon_name(self, scope, node):
        tag = node.get('tagUsed', 'enum') if node['kind'] == 'CXXRecordDecl' else 'enum'
        key = ('::'.join(scope), tag)
        lst = self.ctx.anon.setdefault(key, [])
        ident = (node.get('loc', {}).get('offset'), node.get('range', {}).get('begin', {}).get('offset'))
        for (i, q) in lst:
            if i == ident: return q.split('::')[-1]
        nm = f"anon_{tag}{len(lst)}"
        lst.append((ident, '::'.join(scope + [nm])))
        return nm

    def index(self, n, scope):
        k = n.get('kind'); name = n.get('name')
        if 'id' in n:
            self.byid[n['id']] = n; self.scope_of[n['id']] = scope
        if k == 'NamespaceDecl':
            # an unnamed namespace contributes no name component (clang prints its members as ns::(anonymous namespace)::x)
            for c in n.get('inner', []): self.index(c, scope + ([name] if name else ['(anonymous namespace)']))
        elif k == 'CXXRecordDecl':
            if n.get('isImplicit'): return
            if not n.get('completeDefinition'): return
            nm = name or self.anon_name(scope, n)
            q = '::'.join(scope + [nm]); n['_q'] = q
            if q not in self.ctx.records:
                r = Rec(q, n, self); self.ctx.records[q] = r
                for b in n.get('bases', []):
                    r.bases.append(norm_std(tstr(b['type'])))
            for c in n.get('inner', []):
                self.index(c, scope + [nm])
            r = self.ctx.records[q]
            if not r.fields and r.node is n:
                for c in n.get('inner', []):
                    if c.get('kind') == 'FieldDecl':
                        r.fields.append((c.get('name'), c['type'], c))
        elif k == 'EnumDecl':
            nm = name or self.anon_name(scope, n)
            q = '::'.join(scope + [nm]); n['_q'] = q
            if q not in self.ctx.enums: self.ctx.enums[q] = Enum(q, n)
            for c in n.get('inner', []):
                if 'id' in c: self.byid[c['id']] = c; self.scope_of[c['id']] = scope + [nm]; c['_enum'] = q
        elif k in ('CXXMethodDecl', 'FunctionDecl', 'CXXConstructorDecl', 'CXXDestructorDecl', 'CXXConversionDecl'):
            self.index_fn(n, scope)
        elif k in ('FunctionTemplateDecl',):
            for c in n.get('inner', []):
                if c.get('kind') in ('FunctionDecl', 'CXXMethodDecl') and any(x.get('kind') == 'TemplateArgument' for x in c.get('inner', [])):
                    self.index_fn(c, scope, template_inst=True)
        elif k == 'FriendDecl':
            for c in n.get('inner', []):
                # friend functions live in the enclosing namespace
                ns = scope
                while ns and '::'.join(ns) in self.ctx.records: ns = ns[:-1]
                self.index(c, ns)
        elif k in ('TypeAliasDecl', 'TypedefDecl'):
            if name and 'type' in n:
                q = '::'.join(scope + [name]); d = norm_std(tstr(n['type']))
                if q != d: self.sugar.setdefault(q, d)
        elif k == 'VarDecl':
            n['_scope'] = scope
            self.ctx.globals.setdefault('::'.join(scope + [name]), (n, self))
        elif k == 'FieldDecl':
            pass

    def index_fn(self, n, scope, template_inst=False):
        pid = n.get('parentDeclContextId')
        sc = scope
        if pid and pid in self.byid and self.byid[pid].get('kind') == 'CXXRecordDecl' and '_q' in self.byid[pid]:
            sc = self.byid[pid]['_q'].split('::')
        elif pid and pid in self.byid and self.byid[pid].get('kind') == 'NamespaceDecl':
            sc = self.scope_of[pid] + [self.byid[pid]['name']]
        n['_scope'] = sc
        for c in n.get('inner', []):
            if c.get('kind') == 'ParmVarDecl' and 'id' in c: self.byid[c['id']] = c
        if n.get('explicitlyDeleted'): return
        mangled = n.get('mangledName')
        if not mangled: return
        key = mangled
        ctx = self.ctx
        f = ctx.funcs.get(key)
        body = None
        for c in n.get('inner', []):
            if c.get('kind') == 'CompoundStmt': body = c
        if f is None:
            f = Fn(); ctx.funcs[key] = f
            f.mangled = mangled; f.name = n['name']; f.kind = n['kind']
            f.q = '::'.join(sc + [n['name']])
            f.rec = '::'.join(sc) if '::'.join(sc) in ctx.records else None
            f.static = n.get('storageClass') == 'static'
            t = n['type']['qualType']
            f.const = bool(re.search(r'\)\s*const\b', t))
            f.implicit = bool(n.get('isImplicit')); f.defaulted = bool(n.get('explicitlyDefaulted'))
            f.template_inst = template_inst
            f.type_str = t
            f.node = n; f.tu = self
            f.params = [c for c in n.get('inner', []) if c.get('kind') == 'ParmVarDecl']
        if body is not None and f.body is None:
            f.body = body; f.node = n; f.tu = self
            f.params = [c for c in n.get('inner', []) if c.get('kind') == 'ParmVarDecl']
            f.inits = [c for c in n.get('inner', []) if c.get('kind') == 'CXXCtorInitializer']
        self.fn_by_id[n['id']] = f
        if f.kind == 'CXXConstructorDecl' and f.rec:
            r = ctx.records[f.rec]
            if f not in r.ctors: r.ctors.append(f)

# --------------------------------------------------------------------------- type mapping

class Types:
    def __init__(self, ctx): self.ctx = ctx; self.sugar = {}; self.scope_hint = []

    def use(self, tu, scope):
        self.sugar = tu.sugar if tu is not None else {}
        self.scope_hint = list(scope or [])

    def resolve_anon(self, q):
        m = re.match(r'^(.*)::\((anonymous|unnamed)( (union|struct|class|enum))? at [^)]*\)$', q)
        if not m: return q
        parent, tag = m.group(1), m.group(4)
        tags = [tag] if tag else ['enum', 'struct', 'class']     # norm_std strips the enum/struct/class keyword
        lst = []
        for t in tags: lst += self.ctx.anon.get((parent, t), [])
        if len(lst) != 1: raise Unsupported('ambiguous anonymous type ' + q)
        return lst[0][1]

    def std_model(self, q):
        """std:: type -> C type string (without declarator) or None"""
        q = strip_alloc(norm_std(q))
        if q in self.sugar:
            q = strip_alloc(self.strip_cv(self.desugar(q)))
        m = re.match(r'^std::vector<(.*)>$', q)
        if m:
            el = m.group(1)
            if el in self.sugar: el = strip_alloc(self.desugar(el))
            if el in UINT8: return 'struct vec_u8'
            if re.match(r'^std::vector<(unsigned char|uint8_t)>$', el): return 'struct vec_frames'
            mm = re.match(r'^std::shared_ptr<(.*)>$', el)
            if mm:
                inner = self.named(mm.group(1))
                return self.vec_of(inner + ' *', 'p_' + cname(mm.group(1)))
            if el in self.ctx.records:
                return self.vec_of(self.named(el), cname(el))
            raise Unsupported('vector element ' + el)
        m = re.match(r'^std::(unique_ptr|shared_ptr)<(.*)>$', q)
        if m:
            return self.named(m.group(2)) + ' *'
        if re.match(r'^std::unordered_map<ASAM::CMP::Decoder::Endpoint, ASAM::CMP::Decoder::SegmentedPacket', q):
            return 'struct map_slot'
        # iterators of that map (single-slot view: "the element of the observed key" or end()), and the element they refer to
        if re.match(r'^std::__detail::_Node_(const_)?iterator(_base)?<std::pair<const ASAM::CMP::Decoder::Endpoint, ASAM::CMP::Decoder::SegmentedPacket>', q):
            return 'struct map_it'
        if re.match(r'^std::pair<const ASAM::CMP::Decoder::Endpoint, ASAM::CMP::Decoder::SegmentedPacket>$', q):
            return 'struct map_slot'
        if q in ('std::basic_string_view<char>', 'std::string_view', 'std::basic_string_view<char, std::char_traits<char>>'):
            return 'struct sv'
        if q in ('std::basic_string<char>', 'std::string', 'std::basic_string<char, std::char_traits<char>, std::allocator<char>>'):
            return 'struct str'
        m = re.match(r'^__gnu_cxx::__normal_iterator<', q)
        if m: return 'size_t'
        return None

    def vec_of(self, elem_c, tag):
        nm = 'vec_' + tag
        if nm not in self.ctx.vec_structs:
            self.ctx.vec_structs[nm] = elem_c
        return 'struct ' + nm

    def named(self, q):
        """a non-pointer, non-reference, unqualified type name -> C type"""
        q = norm_std(q)
        q = self.resolve_anon(q)
        if q in BUILTIN: return BUILTIN[q]
        if q in self.ctx.records: return 'struct ' + cname(q)
        if q in self.ctx.enums: return cname(q)
        s = self.std_model(q)
        if s: return s
        if q in self.sugar and self.sugar[q] != q: return self.c_noconst(self.sugar[q])
        # unique suffix match (sugared names), preferring the enclosing scopes of the function being translated
        c = self.suffix_match(q)
        if c: return self.named(c)
        raise Unsupported('type ' + q)

    def suffix_match(self, q, only_records=False):
        pool = list(self.ctx.records) + ([] if only_records else list(self.ctx.enums))
        cands = [r for r in pool if r.endswith('::' + q)]
        if len(cands) == 1: return cands[0]
        if len(cands) > 1 and self.scope_hint:
            for k in range(len(self.scope_hint), 0, -1):
                pre = '::'.join(self.scope_hint[:k]) + '::'
                c2 = [r for r in cands if r == pre + q]
                if len(c2) == 1: return c2[0]
        return None

    def parse(self, q):
        """type string -> (ctype, kind) where kind in value|ref"""
        q = norm_std(q)
        m = re.match(r'^(.*?)\s*&&?$', q)
        if m: return (self.c(m.group(1)) + ' *', 'ref')
        return (self.c(q), 'value')

    def c(self, q):
        q = norm_std(q)
        # array
        m = re.match(r'^(.*?)\s*\[(\d+)\]$', q)
        if m: raise Unsupported('array type in this position ' + q)
        # pointer (rightmost)
        m = re.match(r'^(.*?)\s*\*\s*(const)?\s*(__restrict)?$', q)
        if m and self.balanced(m.group(1)):
            return self.c(m.group(1)) + ' *' + ('const' if m.group(2) else '')
        m = re.match(r'^(.*?)\s*&&?$', q)
        if m and self.balanced(m.group(1)): return self.c(m.group(1)) + ' *'
        const = ''
        if q.startswith('const '): const = 'const '; q = q[6:]
        elif q.endswith(' const'): const = 'const '; q = q[:-6]
        base = self.named(q)
        if base.endswith('*') and const: return base + 'const'
        return const + base

    def c_noconst(self, q):
        return self.c(q)

    def desugar(self, q):
        q = norm_std(q)
        seen = 0
        while q in self.sugar and seen < 8:
            q = self.sugar[q]; seen += 1
        return q

    def balanced(self, s):
        return s.count('<') == s.count('>') and s.count('(') == s.count(')')

    def is_ref(self, q):
        q = norm_std(q)
        return bool(re.search(r'&&?$', q)) and self.balanced(re.sub(r'\s*&&?$', '', q))

    def strip_ref(self, q):
        return re.sub(r'\s*&&?$', '', norm_std(q))

    def strip_cv(self, q):
        q = norm_std(q)
        q = re.sub(r'^const ', '', q); q = re.sub(r' const$', '', q)
        return q

    def record_of(self, q):
        """qname of record type for a type string (after stripping cv/ref) or None"""
        q = self.strip_cv(self.strip_ref(q))
        q = self.resolve_anon(q)
        if q in self.ctx.records: return q
        if q in self.sugar:
            d = self.strip_cv(self.desugar(q))
            if d in self.ctx.records: return d
        return self.suffix_match(q, only_records=True)

    def decl(self, q, name):
        """C declaration of a variable/field of clang type q"""
        q = norm_std(q)
        m = re.match(r'^(.*?)\s*\[(\d+)\]$', q)
        if m: return f"{self.c(m.group(1))} {name}[{m.group(2)}]"
        return f"{self.c(q)} {name}"

# --------------------------------------------------------------------------- emitter

def simplify_addr(s):
    """&(*X) -> X"""
    s = s.strip()
    m = re.match(r'^\(\*(.*)\)$', s)
    if m and balanced_parens(m.group(1)): return m.group(1)
    return '&' + s

def balanced_parens(s):
    d = 0
    for ch in s:
        if ch == '(': d += 1
        elif ch == ')':
            d -= 1
            if d < 0: return False
    return d == 0

def local_decls(body):
    """[name, type] of every local variable declared in a function body, in source order (lambdas excluded)"""
    out = []
    def walk(n):
        if not isinstance(n, dict): return
        if n.get('kind') == 'LambdaExpr': return
        if n.get('kind') == 'VarDecl' and n.get('name'): out.append([n['name'], tstr(n['type'])])
        for c in n.get('inner', []): walk(c)
    walk(body)
    return out

class FnEmitter:
    """emits one function"""
    def __init__(self, gen, fn, tu):
        self.gen = gen; self.ctx = gen.ctx; self.T = gen.T; self.fn = fn; self.tu = tu
        self.ref_ids = set()        # decl ids whose C variable is a pointer standing for a reference
        self.loop_no = 0
        self.call_counts = collections.Counter()
        self.ptr_iter = {}
        self.it_locals = []         # locals that are iterators of the reassembly map (declared so far)
        self.stmt_calls = []        # calls seen while emitting the current statement
        self.ret_no = 0
        self.tmp_no = 0
        self.spec = gen.spec_for(fn.cname) if fn else None
        if self.spec is not None and fn is not None:
            # contracts mention parameters by name; the names the contract was written against are recorded in specs/params.json.  If the code renamed
            # parameters (same number, same order) the contract text follows the renaming - a renamed parameter is not a change of behaviour.
            was = gen.recorded_params.get(fn.cname); now = [p.get('name') for p in fn.params]
            ren = {}
            if was and len(was) == len(now) and was != now and all(now) and all(was):
                ren = {a: b for a, b in zip(was, now) if a != b}
            # the same for local variables (invariants and ghost code mention them): same number of locals, same types, same order of declaration
            lwas = gen.recorded_locals.get(fn.cname); lnow = local_decls(fn.body) if fn.body else []
            if lwas and len(lwas) == len(lnow) and [t for _, t in lwas] == [t for _, t in lnow] and [n_ for n_, _ in lwas] != [n_ for n_, _ in lnow]:
                for (a, _), (b, _) in zip(lwas, lnow):
                    if a != b and a not in ren: ren[a] = b
            if ren and len(set(ren.values())) == len(ren):
                import copy
                def sub(t):
                    t = re.sub(r'\b(' + '|'.join(map(re.escape, ren)) + r')\b', lambda m_: '\x00' + m_.group(1) + '\x00', t)
                    return re.sub(r'\x00([^\x00]+)\x00', lambda m_: ren[m_.group(1)], t)
                sp = copy.copy(self.spec)
                sp.contract = [(sub(t), ln) for t, ln in self.spec.contract]
                sp.loops = {k: [(sub(t), ln) for t, ln in v] for k, v in self.spec.loops.items()}
                sp.ghost = {k: [(sub(t), ln) for t, ln in v] for k, v in self.spec.ghost.items()}
                self.spec = sp
                gen.report.setdefault('renamed_parameters', []).append(f"{fn.cname}: " + ', '.join(f"{a}->{b}" for a, b in ren.items()))
        self.used_anchors = set()
        self.lambda_no = 0
        self.names = {}             # decl id -> C identifier

    # ------------------------------------------------------------ helpers
    def ty(self, n): return tstr(n['type'])

    def is_lvalue(self, n): return n.get('valueCategory') in ('lvalue', 'xvalue')

    def addr(self, n):
        """C expression for the address of the object designated by glvalue n"""
        return simplify_addr(self.e(n))

    def skip_wrappers(self, n, kinds=('ExprWithCleanups', 'CXXBindTemporaryExpr', 'ConstantExpr', 'ParenExpr')):
        while n.get('kind') in kinds: n = n['inner'][0]
        return n

    def value_for_param(self, arg, ptype_str):
        """emit argument 'arg' for a parameter of clang type ptype_str"""
        if self.T.is_ref(ptype_str):
            return self.addr(arg)
        return self.e(arg)

    def fresh(self, base='t'):
        self.tmp_no += 1
        return f"__{base}{self.tmp_no}"

    def note_call(self, cname_):
        k = self.call_counts[cname_]; self.call_counts[cname_] += 1
        self.stmt_calls.append((cname_, k))
        return k

    # ------------------------------------------------------------ expressions
    def e(self, n):
        k = n['kind']; f = getattr(self, 'e_' + k, None)
        if not f: raise Unsupported('expr kind ' + k)
        return f(n)

    def sub(self, n, i=0): return self.e(n['inner'][i])

    def e_ParenExpr(self, n): return '(' + self.sub(n) + ')'
    def e_ConstantExpr(self, n):
        # a constant expression clang has already evaluated (case labels, constexpr initialisers): use its value
        v = n.get('value')
        if v is not None and re.match(r'^-?\d+$', str(v)):
            try:
                ct = self.T.c(self.T.strip_cv(self.ty(n)))
                if ct in ('uint8_t', 'uint16_t', 'uint32_t', 'uint64_t', 'int8_t', 'int16_t', 'int32_t', 'int64_t', 'int', 'size_t', '_Bool', 'char') or re.match(r'^[A-Za-z_]\w*$', ct) and self.T.strip_cv(self.T.desugar(self.ty(n))) in self.ctx.enums:
                    return f"(({ct})({v}))"
            except Unsupported: pass
        return self.sub(n)
    def e_ExprWithCleanups(self, n): return self.sub(n)
    def e_CXXBindTemporaryExpr(self, n): return self.sub(n)

    def e_IntegerLiteral(self, n):
        t = n['type']['qualType']
        suf = {'unsigned int': 'u', 'unsigned long': 'ul', 'long': 'l', 'int': '', 'unsigned long long': 'ull', 'long long': 'll'}.get(t)
        if suf is None: raise Unsupported('int literal type ' + t)
        return n['value'] + suf

    def e_CharacterLiteral(self, n): return f"((char){n['value']})"
    def e_CXXBoolLiteralExpr(self, n): return '((_Bool)1)' if n['value'] else '((_Bool)0)'
    def e_CXXNullPtrLiteralExpr(self, n): return '((void *)0)'
    def e_FloatingLiteral(self, n):
        v = n['value']
        if not ('.' in v or 'e' in v or 'E' in v): v += '.0'
        t = n['type']['qualType']
        return v + ('f' if t == 'float' else '')
    def e_StringLiteral(self, n): return n['value']
    def e_CXXThisExpr(self, n): return 'this'

    def e_ImplicitCastExpr(self, n):
        ck = n['castKind']; inner = n['inner'][0]
        if ck in ('LValueToRValue', 'NoOp', 'FunctionToPointerDecay', 'ArrayToPointerDecay', 'UserDefinedConversion', 'ConstructorConversion'):
            return self.e(inner)
        if ck in ('IntegralCast', 'IntegralToBoolean', 'IntegralToFloating', 'FloatingCast', 'PointerToBoolean', 'FloatingToIntegral'):
            return f"(({self.T.c(self.ty(n))})({self.e(inner)}))"
        if ck == 'BitCast':
            return f"(({self.T.c(self.ty(n))})({self.e(inner)}))"
        if ck == 'NullToPointer':
            return f"(({self.T.c(self.ty(n))})0)"
        if ck in ('UncheckedDerivedToBase', 'DerivedToBase'):
            s = self.e(inner)
            src_t = self.ty(inner)
            if self.T.record_of(re.sub(r'\s*\*\s*(const)?$', '', norm_std(src_t))) is None:
                return s      # base-class adjustment inside a std:: model type (smart pointers): identity
            ptr = self.ty(n).rstrip().endswith('*')
            for _ in n.get('path', []):
                s = f"(&({s})->__base)" if ptr else f"({s}).__base"
            return s
        if ck == 'BaseToDerived':
            return self.base_to_derived(n, inner)
        raise Unsupported('implicit cast ' + ck)

    def base_to_derived(self, n, inner):
        if self.ty(n).rstrip().endswith('*'):
            return f"(({self.T.c(self.ty(n))})({self.e(inner)}))"
        # glvalue
        return f"(*({self.T.c(self.ty(n))} *)({self.addr(inner)}))"

    def cast_common(self, n):
        ck = n.get('castKind'); inner = n['inner'][0]
        if ck in ('NoOp', 'LValueToRValue', 'ConstructorConversion', 'UserDefinedConversion'):
            # static_cast<T&&>(x), functional casts building class values
            if ck == 'NoOp' and not self.is_lvalue(n) and self.ty(n).rstrip().endswith('*'):
                return f"(({self.T.c(self.ty(n))})({self.e(inner)}))"     # const_cast of a pointer
            return self.e(inner)
        if ck == 'BaseToDerived': return self.base_to_derived(n, inner)
        if ck in ('UncheckedDerivedToBase', 'DerivedToBase'): return self.e_ImplicitCastExpr(n)
        if ck in ('IntegralCast', 'BitCast', 'IntegralToBoolean', 'IntegralToFloating', 'FloatingCast', 'FloatingToIntegral', 'PointerToBoolean', 'IntegralToPointer', 'PointerToIntegral', 'Dependent'):
            if self.is_lvalue(n): raise Unsupported('lvalue cast ' + ck)
            return f"(({self.T.c(self.ty(n))})({self.e(inner)}))"
        if ck == 'NullToPointer': return f"(({self.T.c(self.ty(n))})0)"
        if ck == 'ToVoid': return f"((void)({self.e(inner)}))"
        raise Unsupported('explicit cast kind ' + str(ck))
    e_CXXStaticCastExpr = cast_common
    e_CXXReinterpretCastExpr = cast_common
    e_CStyleCastExpr = cast_common
    e_CXXFunctionalCastExpr = cast_common
    e_CXXConstCastExpr = cast_common

    def e_DeclRefExpr(self, n):
        r = n['referencedDecl']; k = r['kind']
        if k in ('ParmVarDecl', 'VarDecl'):
            d = self.tu.byid.get(r['id'])
            if d is None and k == 'VarDecl':
                # not a local of this function and not in this dump: namespace-scope variable dumped separately
                cands = [v for q, v in self.ctx.globals.items() if q.split('::')[-1] == r['name'] and tstr(v[0]['type']) == tstr(r['type'])]
                if len(cands) != 1: raise Unsupported(f"variable {r['name']} is not in any AST dump (add its name to specs/extra_filters.txt)")
                d = cands[0][0]
            if k == 'VarDecl' and d is not None and (d.get('storageClass') == 'static' or d.get('constexpr')) and '_scope' in d:
                # static constexpr member / namespace-scope constant -> its value
                init = [c for c in d.get('inner', []) if c.get('kind', '').endswith(('Expr', 'Literal', 'Operator'))]
                if not init: raise Unsupported('static variable without constant initialiser: ' + r['name'])
                return f"(({self.T.c(tstr(d['type']))})({self.e(init[0])}))"
            if k == 'VarDecl' and d is not None and '_scope' in d and d.get('storageClass') != 'static':
                # namespace-scope variable: must be const with constant initialiser
                if not tstr(d['type']).startswith('const '): raise Unsupported('mutable namespace-scope variable ' + r['name'])
                init = [c for c in d.get('inner', []) if c.get('kind', '').endswith(('Expr', 'Literal', 'Operator'))]
                if not init: raise Unsupported('namespace-scope variable without initialiser ' + r['name'])
                return f"(({self.T.c(tstr(d['type']))})({self.e(init[0])}))"
            if r['id'] in self.ptr_iter: return self.ptr_iter[r['id']]
            nm = self.names.get(r['id'], r.get('name') or '_unnamed')
            rt = tstr(r['type'])
            if r['id'] in self.ref_ids or self.T.is_ref(rt): return f"(*{nm})"
            return nm
        if k == 'EnumConstantDecl':
            d = self.tu.byid.get(r['id'])
            if d is None or '_enum' not in d:
                eq = self.T.resolve_anon(self.T.strip_cv(self.T.desugar(self.ty(n))))
                if eq not in self.ctx.enums or r['name'] not in self.ctx.enums[eq].consts:
                    raise Unsupported('enum constant without decl ' + r['name'])
                en = self.ctx.enums[eq]
            else:
                en = self.ctx.enums[d['_enum']]
            return f"(({cname(en.q)}){en.consts[r['name']]})"
        if k in ('FunctionDecl', 'CXXMethodDecl'):
            f = self.gen.resolve_fn(self.tu, r)
            if f is None: raise Unsupported('reference to unknown function ' + r['name'])
            return f.cname
        raise Unsupported('declref ' + k)

    def e_MemberExpr(self, n):
        inner = n['inner'][0]
        if not n.get('name'):
            # implicit anonymous-union member: C anonymous union, elide
            # keep arrow-ness for the outer member
            n['_elided_arrow'] = n['isArrow']
            return self.e(inner)
        d = self.tu.byid.get(n.get('referencedMemberDecl'))
        if d is None and n['name'] == 'npos' and self.T.std_model(self.T.strip_cv(self.ty(inner))) == 'struct sv':
            return 'SV_NPOS'
        base = self.e(inner)
        arrow = n['isArrow']
        if inner.get('kind') == 'MemberExpr' and not inner.get('name'): arrow = inner['isArrow']
        mname = n['name']
        if d is None and mname in ('first', 'second') and self.T.std_model(self.T.strip_cv(re.sub(r'\s*\*\s*(const)?$', '', norm_std(self.ty(inner))))) == 'struct map_slot':
            mname = {'first': 'key', 'second': 'value'}[mname]      # std::pair<const Endpoint, SegmentedPacket> is the slot itself
        s = f"{base}{'->' if arrow else '.'}{mname}"
        if d is not None and d.get('kind') == 'FieldDecl' and self.T.is_ref(tstr(d['type'])):
            return f"(*{s})"
        if d is not None and d.get('kind') == 'VarDecl':
            # static data member accessed through object: constant
            init = [c for c in d.get('inner', []) if c.get('kind', '').endswith(('Expr', 'Literal', 'Operator'))]
            if not init: raise Unsupported('static member without initialiser ' + n['name'])
            return f"(({self.T.c(tstr(d['type']))})({self.e(init[0])}))"
        return s

    def e_BinaryOperator(self, n):
        op = n['opcode']
        if op == ',': return f"({self.sub(n,0)} , {self.sub(n,1)})"
        if op == '=' and self.T.record_of(self.ty(n)) and not self.rec_trivial(self.ty(n)):
            raise Unsupported('builtin assignment of non-trivial class')
        return f"({self.sub(n,0)} {op} {self.sub(n,1)})"

    def rec_trivial(self, tq):
        r = self.T.record_of(tq)
        return r is not None and self.ctx.records[r].trivially_copyable

    def e_CompoundAssignOperator(self, n):
        lhs = self.sub(n, 0); rhs = self.sub(n, 1); op = n['opcode'][:-1]
        lt = tstr(n['computeLHSType']); rt = tstr(n['computeResultType'])
        if lt.rstrip().endswith('*'):
            return f"({lhs} {n['opcode']} {rhs})"
        return f"({lhs} = ({self.T.c(self.ty(n))})((({self.T.c(lt)})({lhs})) {op} ({rhs})))"

    def e_UnaryOperator(self, n):
        op = n['opcode']; s = self.sub(n)
        if op == '&': return simplify_addr(s)
        if op == '*': return f"(*{s})"
        if op in ('++', '--'):
            return f"({s}{op})" if n.get('isPostfix') else f"({op}{s})"
        if op in ('-', '+', '~', '!'): return f"({op}{s})"
        raise Unsupported('unary ' + op)

    def e_ConditionalOperator(self, n):
        return f"({self.sub(n,0)} ? {self.sub(n,1)} : {self.sub(n,2)})"

    def e_ArraySubscriptExpr(self, n): return f"{self.sub(n,0)}[{self.sub(n,1)}]"

    def e_UnaryExprOrTypeTraitExpr(self, n):
        if n['name'] != 'sizeof': raise Unsupported(n['name'])
        if 'argType' in n:
            q = tstr(n['argType'])
            return f"sizeof({self.T.c(q)})"
        inner = n['inner'][0]
        it = self.skip_wrappers(inner)
        return f"sizeof({self.T.c(self.T.strip_ref(self.ty(it)))})"

    def e_MaterializeTemporaryExpr(self, n):
        inner = n['inner'][0]
        q = self.T.strip_cv(self.ty(n))
        v = self.e(inner)
        m = re.match(r'^(.*?)\s*\[(\d+)\]$', q)
        if m: raise Unsupported('array temporary')
        return f"(({self.T.c(q)}[1]){{ {v} }})[0]"

    def e_InitListExpr(self, n):
        q = self.ty(n)
        rq = self.T.record_of(q)
        items = [self.e(c) for c in n.get('inner', [])]
        if rq:
            r = self.ctx.records[rq]
            if r.bases: raise Unsupported('aggregate init with bases')
            return f"(({self.T.c(self.T.strip_cv(q))}){{ {', '.join(items)} }})"
        std = self.T.std_model(self.T.strip_cv(q)) if 'std::' in q else None
        if std and not items:
            return self.std_default(std)
        if len(items) == 1: return items[0]
        raise Unsupported('init list of type ' + q)

    def std_default(self, cty):
        if cty.endswith('*'): return f"(({cty})0)"
        if cty == 'size_t': return '((size_t)0)'
        return f"(({cty}){{0}})"

    def e_CXXDefaultInitExpr(self, n):
        raise Unsupported('CXXDefaultInitExpr outside constructor initialiser')

    def e_CXXDefaultArgExpr(self, n):
        raise Unsupported('default argument')

    def e_CXXTemporaryObjectExpr(self, n): return self.e_CXXConstructExpr(n)

    # ------------------------------------------------------------ construction
    def e_CXXConstructExpr(self, n):
        q = self.ty(n); args = [a for a in n.get('inner', []) if a.get('kind') != 'CXXDefaultArgExpr']
        ctor_t = n.get('ctorType', {}).get('qualType', '')
        params = self.gen.param_types_of_sig(ctor_t)
        rq = self.T.record_of(q)
        if rq:
            r = self.ctx.records[rq]
            # copy/move of trivially copyable classes: C struct copy
            if len(params) == 1 and self.T.record_of(params[0]) == rq and self.T.is_ref(params[0]) and r.trivially_copyable:
                return self.e(args[0])
            f = self.gen.find_ctor(rq, ctor_t)
            if f is None:
                if not args and r.trivially_copyable and not any(True for _ in r.fields):
                    return f"(({self.T.c(rq)}){{0}})"
                raise Unsupported(f'constructor {rq} {ctor_t} has no definition in the AST')
            mk = self.gen.make_wrapper(f)
            self.note_call(f.cname)
            a = [self.value_for_param(x, tstr(p['type'])) for x, p in zip(args, f.params)]
            if len(args) != len(f.params): raise Unsupported('ctor arity (default args) ' + f.q)
            return f"{mk}({', '.join(a)})"
        cty = self.T.std_model(self.T.strip_cv(q))
        if cty is None: raise Unsupported('construct ' + q)
        return self.gen.std.construct(self, cty, params, args, n)

    # ------------------------------------------------------------ calls
    def callee_fn(self, callee):
        c = callee
        while c.get('kind') in ('ImplicitCastExpr', 'ParenExpr'): c = c['inner'][0]
        return c

    def emit_call_to(self, f, obj, args, n):
        """call translated function f; obj = C pointer expr or None"""
        if f.cname in self.ctx.excluded and not self.gen.has_stub(f):
            raise Unsupported('call to excluded function ' + f.q)
        a = [] if obj is None else [obj]
        if len(args) != len(f.params): raise Unsupported('arity mismatch (default args?) calling ' + f.q)
        for x, p in zip(args, f.params):
            a.append(self.value_for_param(x, tstr(p['type'])))
        self.note_call(f.cname)
        s = f"{f.cname}({', '.join(a)})"
        if self.T.is_ref(self.gen.ret_type(f)): s = f"(*{s})"
        return s

    def e_CallExpr(self, n):
        c = self.callee_fn(n['inner'][0]); args = n['inner'][1:]
        if c.get('kind') != 'DeclRefExpr': raise Unsupported('call via ' + c.get('kind'))
        r = c['referencedDecl']
        f = self.gen.resolve_fn(self.tu, r)
        if f is not None:
            return self.emit_call_to(f, None, args, n)
        return self.gen.std.free_call(self, r['name'], r['type']['qualType'], args, n)

    def e_CXXMemberCallExpr(self, n):
        me = n['inner'][0]
        while me.get('kind') in ('ParenExpr',): me = me['inner'][0]
        if me['kind'] != 'MemberExpr': raise Unsupported('member call via ' + me['kind'])
        args = n['inner'][1:]
        base = me['inner'][0]
        bt = self.ty(base)
        f = self.gen.resolve_method(self.tu, me, bt, len(args))
        if f is not None and self.gen.is_trivial_special(f) and f.name == 'operator=':
            lhs = f"(*{self.e(base)})" if me['isArrow'] else self.e(base)
            return f"({lhs} = {self.e(args[0])})"
        if f is not None:
            obj = self.e(base) if me['isArrow'] else self.addr(base)
            if f.static: obj = None
            return self.emit_call_to(f, obj, args, n)
        # std:: member
        if me['isArrow']:
            objp = self.e(base); bq = re.sub(r'\s*\*\s*(const)?$', '', bt)
        else:
            objp = self.addr(base); bq = bt
        cty = self.T.std_model(self.T.strip_cv(bq))
        if cty is None: raise Unsupported(f"member call {me.get('name')} on {bq}")
        return self.gen.std.method(self, cty, me['name'], objp, args, n)

    def e_CXXOperatorCallExpr(self, n):
        c = self.callee_fn(n['inner'][0]); args = n['inner'][1:]
        r = c['referencedDecl']
        f = self.gen.resolve_fn(self.tu, r, first_arg_type=self.ty(args[0]) if args else None)
        if f is not None:
            if self.gen.is_trivial_special(f) and f.name == 'operator=':
                return f"({self.e(args[0])} = {self.e(args[1])})"
            if f.kind == 'CXXMethodDecl' and not f.static:
                return self.emit_call_to(f, self.addr(args[0]), args[1:], n)
            return self.emit_call_to(f, None, args, n)
        # implicit trivial copy assignment of trivially copyable class without AST body
        a0t = self.ty(args[0])
        if r['name'] == 'operator=' and self.rec_trivial(a0t):
            return f"({self.e(args[0])} = {self.e(args[1])})"
        cty = self.T.std_model(self.T.strip_cv(a0t)) if ('std::' in a0t or '__gnu_cxx' in a0t) else None
        if cty is None: raise Unsupported(f"operator call {r['name']} on {a0t}")
        return self.gen.std.operator(self, cty, r['name'], args, n)

    def e_LambdaExpr(self, n):
        raise Unsupported('lambda outside a supported std algorithm')

    # ------------------------------------------------------------ statements
    def stmt(self, n, ind):
        """returns list of C lines for statement n (with ghost anchors applied)"""
        k = n.get('kind'); p = '    ' * ind
        if k == 'CompoundStmt':
            out = [p + '{']
            for c in n.get('inner', []): out += self.stmt(c, ind + 1)
            out.append(p + '}')
            return out
        if k == 'IfStmt':
            if n.get('hasInit') or n.get('hasVar'): raise Unsupported('if with init/var')
            inner = n['inner']
            self.stmt_calls = []
            cond = self.e(inner[0])
            calls = self.stmt_calls
            out = self.anchors_before(calls, p) + [p + f"if ({cond})"] + self.block(inner[1], ind)
            if len(inner) > 2: out += [p + 'else'] + self.block(inner[2], ind)
            return out
        if k == 'WhileStmt':
            inner = [c for c in n['inner']]
            if len(inner) != 2: raise Unsupported('while with condition variable')
            self.stmt_calls = []
            cond = self.e(inner[0])
            lc = self.loop_contract()
            return [p + f"while ({cond})"] + lc + self.block(inner[1], ind)
        if k == 'ForStmt':
            init, condvar, cond, inc, body = n['inner']
            if condvar: raise Unsupported('for with condition variable')
            pit = self.pointer_iterator(init, inc, body)
            if pit:
                # for (T *it = <pointer parameter>; ...; ++it) with `it` advanced by that increment only: base + index normal form
                # (it == base + it__i at every point; same rule as range-for). Loop contracts then carry a scalar index, never a pointer.
                vid, vname, base = pit
                idx = vname + '__i'
                self.ptr_iter[vid] = f"({base} + {idx})"
                out = [p + '{', p + f"    size_t {idx} = 0;"]
                self.stmt_calls = []
                c = self.e(cond) if cond else '1'
                lc = self.loop_contract()
                out += [p + f"    for (; {c}; (++{idx}))"] + lc + self.block(body, ind + 1)
                out.append(p + '}')
                del self.ptr_iter[vid]
                return out
            out = [p + '{']
            if init: out += self.stmt(init, ind + 1)
            self.stmt_calls = []
            c = self.e(cond) if cond else '1'
            i = self.e(inc) if inc else ''
            lc = self.loop_contract()
            out += [p + f"    for (; {c}; {i})"] + lc + self.block(body, ind + 1)
            out.append(p + '}')
            return out
        if k == 'CXXForRangeStmt':
            return self.range_for(n, ind)
        if k == 'SwitchStmt':
            if n.get('hasInit') or n.get('hasVar'): raise Unsupported('switch with init/var')
            inner = n['inner']
            self.stmt_calls = []
            cond = self.e(inner[0])
            return [p + f"switch ({cond})"] + self.stmt(inner[1], ind)
        if k == 'CaseStmt':
            inner = n['inner']
            return [p + f"case {self.e(inner[0])}:"] + self.stmt(inner[-1], ind + 1)
        if k == 'DefaultStmt': return [p + 'default:'] + self.stmt(n['inner'][0], ind + 1)
        if k == 'BreakStmt': return [p + 'break;']
        if k == 'ContinueStmt': return [p + 'continue;']
        if k == 'NullStmt': return [p + ';']
        if k == 'ReturnStmt':
            self.stmt_calls = []
            rno = self.ret_no; self.ret_no += 1
            g = self.ghost(f'before-return#{rno}', p) + self.ghost('exit', p, mark=False)
            if not n.get('inner'):
                return self.wrapg(g, [p + 'return;'], p)
            v = n['inner'][0]
            rt = self.gen.ret_type(self.fn)
            if self.T.is_ref(rt): s = self.addr(v)
            else: s = self.e(v)
            if self.fn.kind == 'CXXConstructorDecl': raise Unsupported('return value in constructor')
            pre = self.anchors_before(self.stmt_calls, p)
            if g:
                # evaluate the value first, then ghost code, then return
                cty = self.T.c(rt) if not self.T.is_ref(rt) else self.T.c(rt)
                return pre + [p + '{', p + f"    {cty} __ret = {s};"] + ['    ' + x for x in g] + [p + '    return __ret;', p + '}']
            return pre + [p + f"return {s};"]
        if k == 'DeclStmt':
            out = []
            for v in n['inner']:
                out += self.vardecl(v, p)
            return out
        # expression statement
        self.stmt_calls = []
        cap = self.capture_call(n, p)
        if cap is not None: return cap
        s = self.e(n)
        calls = self.stmt_calls
        return self.anchors_before(calls, p) + [p + s + ';'] + self.anchors_after(calls, p)

    def wrapg(self, g, lines, p):
        return g + lines

    def the_map(self):
        """C expression for the address of the reassembly map of *this (a Decoder has exactly one): iterators carry no pointer in the model"""
        r = self.ctx.records.get(self.fn.rec) if self.fn.rec else None
        if r is None or self.fn.static: raise Unsupported('map iterator outside a member function of the class that owns the map')
        names = [nm for nm, t, _ in r.fields if nm and self.T.std_model(self.T.strip_cv(norm_std(tstr(t)))) == 'struct map_slot']
        if len(names) != 1: raise Unsupported('map iterator: the class does not own exactly one reassembly map')
        return f"(&this->{names[0]})"

    def pointer_iterator(self, init, inc, body):
        """(var id, name, base expression) if the for-loop declares exactly one pointer variable initialised from a pointer PARAMETER, its increment is
        ++var / var++, and the body never writes to var or takes its address; else None"""
        if not init or init.get('kind') != 'DeclStmt' or len(init.get('inner', [])) != 1 or not inc: return None
        v = init['inner'][0]
        if v.get('kind') != 'VarDecl' or not tstr(v['type']).rstrip().endswith('*'): return None
        vin = [c for c in v.get('inner', []) if 'Attr' not in c.get('kind', '')]
        if len(vin) != 1: return None
        b = self.skip_wrappers(vin[0])
        while b.get('kind') == 'ImplicitCastExpr' and b.get('castKind') in ('LValueToRValue', 'NoOp'): b = self.skip_wrappers(b['inner'][0])
        if b.get('kind') != 'DeclRefExpr' or b['referencedDecl'].get('kind') != 'ParmVarDecl' or b['referencedDecl']['id'] in self.ref_ids: return None
        if self.T.is_ref(tstr(b['referencedDecl']['type'])): return None
        i = self.skip_wrappers(inc)
        if i.get('kind') != 'UnaryOperator' or i.get('opcode') != '++': return None
        t = self.skip_wrappers(i['inner'][0])
        if t.get('kind') != 'DeclRefExpr' or t['referencedDecl']['id'] != v['id']: return None
        base_id = b['referencedDecl']['id']
        def writes(n):
            k = n.get('kind')
            if k in ('UnaryOperator',) and n.get('opcode') in ('++', '--', '&'):
                x = self.skip_wrappers(n['inner'][0])
                if x.get('kind') == 'DeclRefExpr' and x['referencedDecl']['id'] in (v['id'], base_id): return True
            if k in ('BinaryOperator', 'CompoundAssignOperator') and (k == 'CompoundAssignOperator' or n.get('opcode') == '='):
                x = self.skip_wrappers(n['inner'][0])
                if x.get('kind') == 'DeclRefExpr' and x['referencedDecl']['id'] in (v['id'], base_id): return True
            if k == 'LambdaExpr': return True
            return any(writes(c) for c in n.get('inner', []) if isinstance(c, dict))
        if writes(body): return None
        self.tu.byid[v['id']] = v
        return v['id'], v['name'], self.names.get(base_id, b['referencedDecl'].get('name'))

    def block(self, n, ind):
        if n.get('kind') == 'CompoundStmt': return self.stmt(n, ind)
        p = '    ' * ind
        return [p + '{'] + self.stmt(n, ind + 1) + [p + '}']

    def vardecl(self, v, p):
        if v['kind'] in ('UsingDecl', 'StaticAssertDecl'): return []      # compile-time only
        if v['kind'] != 'VarDecl': raise Unsupported('decl ' + v['kind'])
        if v.get('storageClass') == 'static' or v.get('tls'):
            if v.get('constexpr') or tstr(v['type']).startswith('const '):
                pass      # a constant: an ordinary (re-initialised) local has the same meaning
            else:
                # state that survives the call.  Emitted as a C static local WITHOUT its initialiser: DFCC gives every static an arbitrary value at the start of a
                # contract check (= any history of earlier calls, a superset of the C++ semantics); a write to it must be allowed by the assigns clause (C19).
                q0 = tstr(v['type']); self.tu.byid[v['id']] = v
                if self.T.is_ref(q0): raise Unsupported('function-local static reference ' + v.get('name', ''))
                return [p + '/* function-local static (thread_local) variable: state shared by all calls */', p + 'static ' + self.T.decl(self.T.strip_cv(q0), v['name']) + ';']
        q = tstr(v['type']); name = v['name']
        self.tu.byid[v['id']] = v
        if self.T.std_model(self.T.strip_cv(norm_std(q))) == 'struct map_it': self.it_locals.append(name)
        init = [c for c in v.get('inner', []) if 'Attr' not in c.get('kind', '')]
        self.stmt_calls = []
        if self.T.is_ref(q):
            if not init: raise Unsupported('reference without initialiser')
            s = self.addr(init[0])
            line = f"{self.T.c(q)}{name} = {s};" if self.T.c(q).endswith('*') else f"{self.T.c(q)} {name} = {s};"
            self.ref_ids.add(v['id'])
        else:
            m = re.match(r'^(.*?)\s*\[(\d+)\]$', q)
            if m:
                if not init: line = self.T.decl(q, name) + ';'
                else:
                    il = self.skip_wrappers(init[0])
                    if il['kind'] != 'InitListExpr': raise Unsupported('array init')
                    items = [self.e(c) for c in il.get('inner', [])]
                    line = self.T.decl(self.T.strip_cv(q), name) + ' = { ' + ', '.join(items) + ' };'
            elif not init:
                rq = self.T.record_of(q)
                if rq and not self.ctx.records[rq].trivially_copyable: raise Unsupported('default-initialised class variable without ctor expr')
                line = self.T.decl(self.unconst(q), name) + ';'
            else:
                s = self.e(init[0])
                line = self.T.decl(self.unconst(q), name) + ' = ' + s + ';'
        calls = self.stmt_calls
        return self.anchors_before(calls, p) + [p + line] + self.anchors_after(calls, p)

    def unconst(self, q):
        # top-level const of locals is dropped (ghost code may need to refer to them; semantics unchanged)
        return q

    def range_for(self, n, ind):
        p = '    ' * ind
        inner = n['inner']
        # [init, rangeDecl, beginDecl, endDecl, cond, inc, loopVarDecl, body]
        rng = inner[1]['inner'][0]   # VarDecl __range1
        loopvar = inner[6]['inner'][0]
        body = inner[7]
        rinit = [c for c in rng.get('inner', [])][0]
        rq = self.T.strip_ref(tstr(rng['type']))
        cty = self.T.std_model(self.T.strip_cv(rq))
        if cty is None or not cty.startswith('struct vec_') or cty in ('struct vec_u8', 'struct vec_frames'):
            raise Unsupported('range-for over ' + rq)
        rp = self.addr(rinit)
        lq = tstr(loopvar['type'])
        idx = self.fresh('i'); rv = self.fresh('range')
        out = [p + '{', p + f"    {cty} *{rv} = {rp};",]
        lc = self.loop_contract()
        out += [p + f"    for (size_t {idx} = 0; {idx} < {rv}->n; ++{idx})"] + lc
        out += [p + '    {']
        if self.T.is_ref(lq):
            out.append(p + f"        {self.T.c(lq)}{loopvar['name']} = &{rv}->d[{idx}];")
            self.ref_ids.add(loopvar['id']); self.tu.byid[loopvar['id']] = loopvar
        else:
            raise Unsupported('range-for by value')
        out += self.block(body, ind + 2)
        out += [p + '    }', p + '}']
        return out

    # ------------------------------------------------------------ spec hooks
    def loop_contract(self):
        k = self.loop_no; self.loop_no += 1
        if self.spec and k in self.spec.loops:
            self.used_anchors.add(('loop', k))
            lines = self.gen.tag_lines(self.spec, self.spec.loops[k])
            self.gen.loop_invs.setdefault(self.fn.cname, {})[k] = inv_record = []
            if self.it_locals:
                # iterators of the reassembly map that are live across the loop: the loop may reassign them, and at every loop head each one is
                # in step with the map: end() when the observed key has no element, else referring to the live element (erase invalidates it) - generated
                # mechanically from the declarations, so that code which keeps an iterator needs no hand-written invariant
                out = []; done = False
                for l in lines:
                    if not done and str(l).lstrip().startswith('__CPROVER_assigns(') and not re.match(r'^\s*__CPROVER_assigns\(\s*\)', str(l)):
                        t = str(l); i = t.index('(') + 1
                        l = SpecLine(t[:i] + ', '.join(self.it_locals) + ', ' + t[i:], l.path, l.line, l.tags); done = True
                    out.append(l)
                if not done: raise Unsupported('loop contract without an assigns clause in a function with map iterators')
                pos = next((i for i, l in enumerate(out) if str(l).lstrip().startswith('__CPROVER_decreases')), len(out))
                for nm in self.it_locals:
                    out.insert(pos, SpecLine(f"__CPROVER_loop_invariant({nm}.at_end != 0 ? {self.the_map()}->present == 0 : ({nm}.epoch == {self.the_map()}->epoch && {self.the_map()}->present != 0))", lines[0].path, lines[0].line, ['C02:map.iterator_valid_at_loop_head']))
                lines = out
            # CBMC names the obligations of a loop contract <function>.loop_invariant_{base,step}.<ordinal of the invariant clause>: remember the clauses in order
            for l in lines:
                if str(l).lstrip().startswith('__CPROVER_loop_invariant'):
                    inv_record.append({'spec': l.path, 'line': l.line, 'tags': l.tags, 'text': str(l).strip()})
            return lines
        return []

    def ghost(self, anchor, p, mark=True):
        if self.spec and anchor in self.spec.ghost:
            self.used_anchors.add(('ghost', anchor))
            return [p + '/* ghost ' + anchor + ' */'] + self.gen.tag_lines(self.spec, self.spec.ghost[anchor], p)
        return []

    def anchors_before(self, calls, p):
        out = []
        for (c, k) in calls: out += self.ghost(f'before-call {c}#{k}', p)
        return out

    def anchors_after(self, calls, p):
        out = []
        for (c, k) in calls: out += self.ghost(f'after-call {c}#{k}', p)
        return out

    def capture_call(self, n, p):
        """statement that is a single call listed in @capture: hoist arguments into __a0.. so ghost code can see them"""
        if not self.spec or not self.spec.capture: return None
        x = self.skip_wrappers(n)
        if x.get('kind') != 'CallExpr': return None
        c = self.callee_fn(x['inner'][0])
        if c.get('kind') != 'DeclRefExpr': return None
        nm = c['referencedDecl']['name']
        k = self.call_counts.get('std::' + nm, 0)
        key = f"{nm}#{k}"
        if key not in self.spec.capture: return None
        self.used_anchors.add(('capture', key))
        args = x['inner'][1:]
        ptypes = self.gen.param_types_of_sig(c['referencedDecl']['type']['qualType'])
        lines = [p + '{']
        names = []
        for i, (a, pt) in enumerate(zip(args, ptypes)):
            s = self.e(a)
            lines.append(p + f"    {self.T.c(pt)} __a{i} = {s};"); names.append(f'__a{i}')
        self.call_counts['std::' + nm] += 1
        lines += self.ghost(f'before-call {key}', p + '    ')
        lines.append(p + f"    verif_memcpy({', '.join(names)});")
        lines += self.ghost(f'after-call {key}', p + '    ')
        lines.append(p + '}')
        return lines

# --------------------------------------------------------------------------- std rules

def deref(p):
    p = p.strip()
    if p.startswith('&'): 
        rest = p[1:]
        return rest
    return f"(*{p})"

class StdRules:
    def __init__(self, gen): self.gen = gen; self.T = gen.T; self.ctx = gen.ctx

    def free_name(self, nm):
        return {'memcpy': 'memcpy'}.get(nm, nm)

    def is_generic_vec(self, cty):
        return cty.startswith('struct vec_') and cty not in ('struct vec_u8', 'struct vec_frames')

    def vec_tag(self, cty): return cty[len('struct '):]

    # ---- construction
    def construct(self, em, cty, params, args, n):
        T = self.T
        if cty == 'struct vec_u8':
            if not params: return 'vec_u8_make_empty()'
            p0 = params[0]
            if len(params) == 2 and 'size_type' in p0: return f"vec_u8_make_n({em.e(args[0])})"
            if len(params) >= 2 and len(args) == 2 and self.T.strip_cv(norm_std(em.ty(args[0]))).rstrip().endswith('*') and self.T.strip_cv(norm_std(em.ty(args[1]))).rstrip().endswith('*'):
                # vector(first, last) over a byte range
                em.note_call('vec_u8_make_range'); return f"vec_u8_make_range((const uint8_t *)({em.e(args[0])}), (const uint8_t *)({em.e(args[1])}))"
            if len(params) == 1 and p0.startswith('const std::vector') and p0.endswith('&'): 
                em.note_call('vec_u8_copy'); return f"vec_u8_copy({em.addr(args[0])})"
            if len(params) == 1 and p0.endswith('&&'):
                em.note_call('vec_u8_move'); return f"vec_u8_move({em.addr(args[0])})"
        if cty == 'struct map_it' and len(params) == 1 and len(args) == 1:
            return em.e(args[0])      # copy / move / iterator -> const_iterator conversion: the same position
        if cty == 'struct vec_frames':
            if not params: return 'vec_frames_make_empty()'
            if len(params) == 1 and params[0].endswith('&&'):
                em.note_call('vec_frames_move'); return f"vec_frames_move({em.addr(args[0])})"
        if self.is_generic_vec(cty):
            tag = self.vec_tag(cty)
            if not params: return f"(({cty}){{0, 0}})"
            if len(params) == 1 and params[0].endswith('&&'):
                em.note_call(tag + '_move'); return f"{tag}_move({em.addr(args[0])})"
            if len(params) == 1 and params[0].endswith('&'):
                elem = self.ctx.vec_structs[tag]
                if not elem.endswith('*'): raise Unsupported('copy of vector of class objects')
                em.note_call(tag + '_copy'); return f"{tag}_copy({em.addr(args[0])})"
        if cty.endswith('*'):
            # unique_ptr / shared_ptr
            if not params: return f"(({cty})0)"
            p0 = params[0]
            if 'nullptr_t' in p0: return f"(({cty})0)"
            if len(params) == 1 and p0.endswith('&&'):
                a = args[0]
                src = em.skip_wrappers(a)
                # move from an lvalue leaves it empty: only temporaries/returns and locals about to die are accepted
                inner = src
                while inner.get('kind') in ('MaterializeTemporaryExpr', 'ImplicitCastExpr', 'CXXBindTemporaryExpr'): inner = inner['inner'][0]
                if inner.get('kind') == 'CallExpr' and em.callee_fn(inner['inner'][0]).get('referencedDecl', {}).get('name') == 'move':
                    raise Unsupported('move-construction of smart pointer from std::move(lvalue)')
                return f"(({cty})({em.e(a)}))"
            if len(params) == 1 and p0.endswith('&'):
                return f"(({cty})({em.e(args[0])}))"      # shared_ptr copy
        if cty == 'struct sv':
            if not params: return '((struct sv){ (const char *)0, (size_t)0 })'
            if len(params) == 1 and params[0].startswith('const char *'):
                return f"sv_from_cstr({em.e(args[0])})"
            if len(params) == 2: return f"((struct sv){{ {em.e(args[0])}, {em.e(args[1])} }})"
            if len(params) == 1 and params[0].endswith('&'): return em.e(args[0])
        if cty == 'struct str':
            if len(params) == 1 and params[0].endswith('&&'): return em.e(args[0])
        if cty == 'size_t':   # iterators
            if len(params) == 1: return em.e(args[0])
        raise Unsupported(f"std construct {cty} ({', '.join(params)})")

    # ---- member functions
    def method(self, em, cty, name, objp, args, n):
        o = deref(objp)
        if cty == 'struct vec_u8':
            if name == 'data': return f"{o}.d"
            if name == 'size': return f"{o}.n"
            if name == 'empty': return f"({o}.n == 0)"
            if name == 'resize' and len(args) == 1:
                em.note_call('vec_u8_resize'); return f"vec_u8_resize({objp}, {em.e(args[0])})"
            if name == 'resize' and len(args) == 2:
                em.note_call('vec_u8_resize_val'); return f"vec_u8_resize_val({objp}, {em.e(args[0])}, {em.e(args[1])})"
            if name == 'assign' and len(args) == 2 and self.T.c(self.T.strip_cv(self.T.strip_ref(em.ty(args[0])))) in ('size_t', 'uint64_t', 'uint32_t', 'uint16_t', 'uint8_t', 'int', 'int32_t', 'int64_t'):
                em.note_call('vec_u8_assign_n'); return f"vec_u8_assign_n({objp}, {em.e(args[0])}, {em.e(args[1])})"
            if name == 'assign' and len(args) == 2 and self.T.strip_cv(norm_std(em.ty(args[0]))).rstrip().endswith('*') and self.T.strip_cv(norm_std(em.ty(args[1]))).rstrip().endswith('*'):
                # assign(first, last) over a byte range
                em.note_call('vec_u8_assign_range'); return f"vec_u8_assign_range({objp}, (const uint8_t *)({em.e(args[0])}), (const uint8_t *)({em.e(args[1])}))"
            if name == 'clear':
                em.note_call('vec_u8_clear'); return f"vec_u8_clear({objp})"
            if name == 'operator=':
                if args[0].get('valueCategory') in ('xvalue', 'prvalue'):
                    em.note_call('vec_u8_assign_move'); return f"(*vec_u8_assign_move({objp}, {em.addr(args[0])}))"
                em.note_call('vec_u8_assign_copy'); return f"(*vec_u8_assign_copy({objp}, {em.addr(args[0])}))"
        if cty == 'struct vec_frames':
            if name == 'back': return f"{o}.back"
            if name == 'empty': return f"({o}.n == 0)"
            if name == 'size': return f"{o}.n"
            if name == 'push_back':
                em.note_call('vec_frames_push_back'); return f"vec_frames_push_back({objp}, {em.addr(args[0])})"
            if name == 'clear':
                em.note_call('vec_frames_clear'); return f"vec_frames_clear({objp})"
        if self.is_generic_vec(cty):
            tag = self.vec_tag(cty); elem = self.ctx.vec_structs[tag]
            if name == 'size': return f"{o}.n"
            if name == 'empty': return f"({o}.n == 0)"
            if name == 'begin': return '((size_t)0)'
            if name == 'end': return f"{o}.n"
            if name == 'push_back':
                a = args[0]
                if not elem.endswith('*') and a.get('valueCategory') != 'xvalue':
                    raise Unsupported('push_back(copy) of class object')
                em.note_call(tag + '_push_back'); return f"{tag}_push_back({objp}, {em.e(a)})"
            if name == 'back' and not args: return f"({o}.d[{o}.n - 1])"
            if name == 'front' and not args: return f"({o}.d[0])"
            if name == 'at' and len(args) == 1: return f"({o}.d[{em.e(args[0])}])"
            if name == 'pop_back':
                em.note_call(tag + '_pop_back'); return f"{tag}_pop_back({objp})"
            if name == 'clear':
                em.note_call(tag + '_clear'); return f"{tag}_clear({objp})"
            if name == 'operator=' and args[0].get('valueCategory') in ('xvalue', 'prvalue'):
                em.note_call(tag + '_assign_move'); return f"(*{tag}_assign_move({objp}, {em.addr(args[0])}))"
        if cty.endswith('*'):
            if name == 'get': return o
            if name == 'operator bool': return f"({o} != 0)"
        if cty == 'struct map_slot':
            if name == 'erase' and len(args) == 1 and self.T.std_model(self.T.strip_cv(self.T.strip_ref(em.ty(args[0])))) == 'struct map_it':
                em.note_call('map_slot_erase_it'); return f"map_slot_erase_it({objp}, {em.e(args[0])})"
            if name == 'find' and len(args) == 1:
                em.note_call('map_slot_find'); return f"map_slot_find({objp}, {em.e(args[0])})"
            if name in ('end', 'cend') and not args:
                return f"map_slot_end({objp})"
            if name == 'erase':
                em.note_call('map_slot_erase'); return f"map_slot_erase({objp}, {em.e(args[0])})"
            if name in ('emplace', 'try_emplace') and len(args) > 2:
                # piecewise form: the mapped value is constructed in place from the remaining arguments, and only if the key is absent.
                # The model constructs the value first (the constructor is pure apart from allocation) and inserts it if absent.
                rq = 'ASAM::CMP::Decoder::SegmentedPacket'
                cands = [f for f in self.ctx.funcs.values() if f.rec == rq and f.kind == 'CXXConstructorDecl' and len(f.params) == len(args) - 1 and f.body is not None
                         and not (len(f.params) == 1 and self.T.record_of(tstr(f.params[0]['type'])) == rq)]
                if len(cands) != 1: raise Unsupported(f'unordered_map::{name} with {len(args) - 1} constructor arguments: no unique SegmentedPacket constructor')
                f = cands[0]; mk = self.gen.make_wrapper(f); em.note_call(f.cname)
                a = [em.value_for_param(x, tstr(p['type'])) for x, p in zip(args[1:], f.params)]
                em.note_call('map_slot_emplace')
                return f"map_slot_emplace({objp}, {em.e(args[0])}, &((struct ASAM_CMP_Decoder_SegmentedPacket[1]){{ {mk}({', '.join(a)}) }})[0])"
            if name in ('emplace', 'try_emplace') and len(args) == 2:
                # inserts only if the key is absent (result, an iterator/bool pair, must be discarded by the caller)
                em.note_call('map_slot_emplace'); return f"map_slot_emplace({objp}, {em.e(args[0])}, {em.addr(args[1])})"
            if name == 'insert_or_assign' and len(args) == 2:
                em.note_call('map_slot_insert_or_assign'); return f"map_slot_insert_or_assign({objp}, {em.e(args[0])}, {em.addr(args[1])})"
            if name == 'count' and len(args) == 1:
                em.note_call('map_slot_count'); return f"map_slot_count({objp}, {em.e(args[0])})"
            if name == 'at' and len(args) == 1:
                em.note_call('map_slot_index'); return f"(*map_slot_index({objp}, {em.e(args[0])}))"
            if name == 'clear' and not args:
                em.note_call('map_slot_clear'); return f"map_slot_clear({objp})"
            if name in ('size', 'empty') and not args:
                raise Unsupported('unordered_map::' + name + ' (the single-slot view cannot answer whole-table queries)')
        if cty == 'struct sv':
            if name == 'size': return f"{o}.n"
            if name == 'data': return f"{o}.p"
            if name == 'find':
                em.note_call('sv_find'); return f"sv_find({objp}, {em.e(args[0])})"
            if name == 'remove_suffix':
                em.note_call('sv_remove_suffix'); return f"sv_remove_suffix({objp}, {em.e(args[0])})"
        if cty == 'struct str':
            if name.startswith('operator basic_string_view'): return f"str_view({objp})"
        raise Unsupported(f"std method {cty}::{name}/{len(args)}")

    # ---- operators
    def operator(self, em, cty, op, args, n):
        if cty.endswith('*'):
            if op == 'operator->': return em.e(args[0])
            if op == 'operator*': return f"(*{em.e(args[0])})"
            if op == 'operator=':
                rhs = args[1]; inner = rhs
                while inner.get('kind') in ('MaterializeTemporaryExpr', 'ImplicitCastExpr', 'CXXBindTemporaryExpr', 'ExprWithCleanups'): inner = inner['inner'][0]
                if inner.get('kind') == 'CallExpr' and em.callee_fn(inner['inner'][0]).get('referencedDecl', {}).get('name') == 'move':
                    raise Unsupported('smart pointer assignment from std::move(lvalue)')
                if inner.get('valueCategory') == 'lvalue' and 'unique_ptr' in em.ty(args[0]): raise Unsupported('unique_ptr assignment from lvalue')
                return f"({em.e(args[0])} = ({cty})({em.e(rhs)}))"
        if cty == 'struct vec_u8':
            if op == 'operator[]': return f"{em.e(args[0])}.d[{em.e(args[1])}]"
            if op == 'operator=':
                rt = em.ty(args[1])
                if args[1].get('valueCategory') == 'xvalue' or args[1].get('valueCategory') == 'prvalue':
                    em.note_call('vec_u8_assign_move'); return f"(*vec_u8_assign_move({em.addr(args[0])}, {em.addr(args[1])}))"
                em.note_call('vec_u8_assign_copy'); return f"(*vec_u8_assign_copy({em.addr(args[0])}, {em.addr(args[1])}))"
        if self.is_generic_vec(cty):
            tag = self.vec_tag(cty)
            if op == 'operator[]': return f"{em.e(args[0])}.d[{em.e(args[1])}]"
            if op == 'operator=' and args[1].get('valueCategory') in ('xvalue', 'prvalue'):
                em.note_call(tag + '_assign_move'); return f"(*{tag}_assign_move({em.addr(args[0])}, {em.addr(args[1])}))"
        if cty == 'struct map_slot':
            if op == 'operator[]':
                em.note_call('map_slot_index'); return f"(*map_slot_index({em.addr(args[0])}, {em.e(args[1])}))"
        if cty == 'struct map_it':
            if op == 'operator=': return f"({em.e(args[0])} = {em.e(args[1])})"
            if op == 'operator!=': return f"(!map_it_eq({em.e(args[0])}, {em.e(args[1])}))"
            if op == 'operator==': return f"map_it_eq({em.e(args[0])}, {em.e(args[1])})"
            if op == 'operator->': em.note_call('map_it_deref'); return f"map_it_deref({em.the_map()}, {em.e(args[0])})"
            if op == 'operator*': em.note_call('map_it_deref'); return f"(*map_it_deref({em.the_map()}, {em.e(args[0])}))"
        if cty == 'struct sv':
            if op == 'operator=': return f"({em.e(args[0])} = {em.e(args[1])})"
        raise Unsupported(f"std operator {cty} {op}")

    # ---- free functions
    def free_call(self, em, name, tq, args, n):
        T = self.T
        if name == 'memcpy':
            # constant length (sizeof / literal): CBMC's built-in memcpy; otherwise the contract model verif_memcpy
            z = args[2]
            while z.get('kind') in ('ImplicitCastExpr', 'ParenExpr', 'ConstantExpr'): z = z['inner'][0]
            const_len = z.get('kind') in ('UnaryExprOrTypeTraitExpr', 'IntegerLiteral')
            if not const_len and z.get('kind') == 'DeclRefExpr':
                d = em.tu.byid.get(z['referencedDecl']['id'])
                if d is None and z['referencedDecl'].get('kind') == 'VarDecl': const_len = True     # namespace-scope constant
            fn = 'memcpy' if const_len else 'verif_memcpy'
            em.note_call(fn)
            return f"{fn}({em.e(args[0])}, {em.e(args[1])}, {em.e(args[2])})"
        if name == '__builtin_memcpy':
            em.note_call('memcpy')
            return f"memcpy({em.e(args[0])}, {em.e(args[1])}, {em.e(args[2])})"
        if name == 'memcmp' and len(args) == 3:
            # contract model with a ghost witness for the first difference (so that "false implies a difference" needs no loop in the caller)
            em.note_call('verif_memcmp')
            return f"verif_memcmp({em.e(args[0])}, {em.e(args[1])}, {em.e(args[2])})"
        if name in ('memset', 'memmove') and len(args) == 3:
            # C library functions CBMC models itself (their own loops are unwound by CBMC: a symbolic length needs a bound in the harness)
            em.note_call(name)
            return f"{name}({em.e(args[0])}, {em.e(args[1])}, {em.e(args[2])})"
        if name in ('move', 'forward'): return em.e(args[0])
        if name in ('max', 'min', 'lowest') and len(args) == 0:
            # std::numeric_limits<T>::max() / min() of an unsigned integer type
            t = T.c(T.strip_cv(T.strip_ref(em.ty(n))))
            lim = {'uint8_t': '0xFFu', 'uint16_t': '0xFFFFu', 'uint32_t': '0xFFFFFFFFu', 'uint64_t': '0xFFFFFFFFFFFFFFFFul', 'size_t': '0xFFFFFFFFFFFFFFFFul'}
            if t not in lim: raise Unsupported('std::numeric_limits::' + name + ' of ' + t)
            return f"(({t})({lim[t] if name == 'max' else '0'}))"
        if name in ('max', 'min') and len(args) == 2:
            t = T.c(T.strip_cv(T.strip_ref(em.ty(n))))
            if t not in ('uint64_t', 'size_t'): raise Unsupported('std::' + name + ' on ' + t)
            return f"sz_{name}({em.e(args[0])}, {em.e(args[1])})"
        if name == 'swap' and len(args) == 2:
            t = T.c(T.strip_cv(em.ty(args[0])))
            rq = T.record_of(em.ty(args[0]))
            return f"VERIF_SWAP({t}, {em.e(args[0])}, {em.e(args[1])})"
        if name in ('make_unique', 'make_shared'):
            q = em.ty(n)
            m = re.match(r'^std::(unique_ptr|shared_ptr)<(.*)>$', strip_alloc(norm_std(q)))
            if not m: raise Unsupported('make_* result ' + q)
            rq = T.record_of(m.group(2))
            if not rq: raise Unsupported('make_* of ' + m.group(2))
            return self.gen.new_object(em, rq, args)
        if name == 'to_string' and len(args) == 1:
            em.note_call('str_from_int'); return f"str_from_int((int64_t)({em.e(args[0])}))"
        if name == 'find_if' and len(args) == 3:
            return self.gen.find_if(em, args, n)
        if name == 'distance' and len(args) == 2:
            return f"((int64_t)(({em.e(args[1])}) - ({em.e(args[0])})))"
        raise Unsupported(f"std function {name} : {tq[:80]}")

# --------------------------------------------------------------------------- specs

class FnSpec:
    def __init__(self, name, path, line):
        self.name = name; self.path = path; self.line = line
        self.contract = []   # (text, srcline)
        self.loops = {}      # k -> [(text, srcline)]
        self.ghost = {}      # anchor -> [(text, srcline)]
        self.capture = set()
        self.locals = []

def parse_specs(paths):
    """returns (fnspecs: name -> FnSpec, harnesses: list of dict, raw prelude text)"""
    fns = collections.OrderedDict(); harnesses = []
    for path in paths:
        cur = None; sect = None; h = None
        for ln, raw in enumerate(open(path).read().split('\n'), 1):
            line = raw.rstrip()
            st = line.strip()
            if st.startswith('##'): continue
            if st.startswith('@fn '):
                nm = st.split()[1]
                if nm in fns: raise SystemExit(f"{path}:{ln}: duplicate @fn {nm}")
                cur = FnSpec(nm, path, ln); fns[nm] = cur; sect = ('contract',); h = None; continue
            if st.startswith('@harness '):
                h = {'name': st.split()[1], 'path': path, 'line': ln, 'props': [], 'enforce': None, 'replace': [], 'defs': [], 'cbmc': [],
                     'loops': True, 'timeout': None, 'body': [], 'body_line': None, 'expect_fail': [], 'tier': 'quick', 'inline': [], 'notes': '', 'bounded': None, 'nondet_static': False, 'lemma': False}
                harnesses.append(h); cur = None; sect = None; continue
            if st == '@end': cur = None; h = None; sect = None; continue
            if cur is not None:
                if st.startswith('@contract'): sect = ('contract',); continue
                if st.startswith('@loop '): sect = ('loop', int(st.split()[1])); cur.loops.setdefault(sect[1], []); continue
                if st.startswith('@ghost? '):
                    # optional anchor (ghost UPDATES only, no assertions): if the call is absent the monitor simply never sees the event
                    sect = ('ghost', st[len('@ghost? '):].strip()); cur.ghost.setdefault(sect[1], []); cur.optional = getattr(cur, 'optional', set()) | {sect[1]}; continue
                if st.startswith('@ghost '): sect = ('ghost', st[len('@ghost '):].strip()); cur.ghost.setdefault(sect[1], []); continue
                if st.startswith('@capture '): cur.capture.add(st.split()[1]); continue
                if st == '@helper': cur.helper = True; continue      # proof convenience only: may be dropped (function inlined) if it no longer fits the code
                if not st: continue
                if sect[0] == 'contract': cur.contract.append((line, ln))
                elif sect[0] == 'loop': cur.loops[sect[1]].append((line, ln))
                elif sect[0] == 'ghost': cur.ghost[sect[1]].append((line, ln))
                continue
            if h is not None:
                if sect == 'body':
                    h['body'].append(raw); continue
                if st.startswith('@props '): h['props'] = st.split()[1:]; continue
                if st.startswith('@also '): h['also'] = st.split()[1:]; h['props'] += [x for x in h['also'] if x not in h['props']]; continue
                if st.startswith('@enforce '): h['enforce'] = st.split()[1]; continue
                if st.startswith('@replace '): h['replace'] += st.split()[1:]; continue
                if st.startswith('@defs '): h['defs'] += st.split()[1:]; continue
                if st.startswith('@cbmc '): h['cbmc'] += st.split()[1:]; continue
                if st.startswith('@noloops'): h['loops'] = False; continue
                if st.startswith('@timeout '): h['timeout'] = int(st.split()[1]); continue
                if st.startswith('@mem '): h['mem'] = int(st.split()[1]); continue
                if st.startswith('@tier '): h['tier'] = st.split()[1]; continue
                if st.startswith('@bounded '): h['bounded'] = st[len('@bounded '):].strip(); continue
                if st.startswith('@lemma'): h['lemma'] = True; continue
                if st.startswith('@note '): h['notes'] = st[len('@note '):]; continue
                if st.startswith('@body'): sect = 'body'; h['body_line'] = ln + 1; continue
                if not st: continue
                raise SystemExit(f"{path}:{ln}: unknown harness directive: {st}")
            if st and not st.startswith('#'):
                raise SystemExit(f"{path}:{ln}: text outside @fn/@harness: {st}")
    return fns, harnesses

# --------------------------------------------------------------------------- generator

OPNAMES = {'operator==': 'op_eq', 'operator!=': 'op_ne', 'operator=': 'op_assign', 'operator()': 'op_call', 'operator[]': 'op_index',
           'operator<': 'op_lt', 'operator->': 'op_arrow', 'operator*': 'op_star'}

def sig_params(sig):
    """text between the parentheses of the parameter list of a function type string 'R (P...) quals'"""
    # the parameter list is the first top-level '(' that is not part of the return type's template arguments
    depth = 0; start = None
    for i, ch in enumerate(sig):
        if ch == '<': depth += 1
        elif ch == '>': depth -= 1
        elif ch == '(' and depth == 0:
            if sig[i:i + 3] == '(*)' or sig[i:i + 2] == '(&': continue
            start = i; break
    if start is None: return ''
    d = 0
    for j in range(start, len(sig)):
        if sig[j] == '(': d += 1
        elif sig[j] == ')':
            d -= 1
            if d == 0: return sig[start + 1:j]
    return ''

def sig_ret(sig):
    depth = 0
    for i, ch in enumerate(sig):
        if ch == '<': depth += 1
        elif ch == '>': depth -= 1
        elif ch == '(' and depth == 0: return sig[:i].strip()
    return sig

def sig_suffix(params_str):
    s = params_str
    s = s.replace('ASAM::CMP::', '').replace('TECMP::', 'T_').replace('std::', '')
    s = re.sub(r'\bconst\b', '', s)
    s = s.replace('&&', ' RR').replace('&', ' R').replace('*', ' P')
    s = re.sub(r'[^A-Za-z0-9]+', '_', s).strip('_')
    return s or 'void'

class Generator:
    def __init__(self, ctx, fnspecs, excluded):
        self.ctx = ctx; self.T = Types(ctx); self.std = StdRules(self)
        self.fnspecs = fnspecs; ctx.excluded = excluded
        self.lines = []; self.linemap = {}   # output line -> (spec path, spec line, tags, text)
        self.known_cnames = set()
        self.report = {'translated': [], 'skipped': [], 'excluded': []}
        self.loop_invs = {}
        self.recorded_params = {}
        self.recorded_locals = {}
        self.used_specs = set()
        self.helper_protos = collections.OrderedDict(); self.helper_bodies = collections.OrderedDict()
        self.pending_helpers = []
        self.fn_ranges = {}

    # ---- names
    def assign_names(self):
        groups = collections.defaultdict(list)
        for f in self.ctx.funcs.values():
            if f.kind == 'CXXDestructorDecl': continue
            nm = f.name
            if f.kind == 'CXXConstructorDecl': base = cname(f.rec or '::'.join(f.q.split('::')[:-1])) + '_ctor'
            else:
                parts = f.q.split('::'); parts[-1] = OPNAMES.get(parts[-1], parts[-1])
                if parts[-1].startswith('operator'): parts[-1] = 'op_conv_' + cname(parts[-1][8:].strip())
                base = cname('::'.join(parts))
            groups[base].append(f)
        for base, fs in groups.items():
            if len(fs) == 1 and fs[0].kind != 'CXXConstructorDecl' and not fs[0].template_inst:
                fs[0].cname = base; continue
            seen = {}
            for f in fs:
                t = f.type_str
                params = sig_params(t)
                nm = base + '__' + sig_suffix(params)
                if f.template_inst:
                    # distinguish instantiations by their template arguments
                    targs = [x for x in f.node.get('inner', []) if x.get('kind') == 'TemplateArgument']
                    ts = []
                    for x in targs:
                        if 'type' in x: ts.append(tstr(x['type']))
                    nm = base + '__T_' + sig_suffix(','.join(ts)) if ts else nm
                if nm in seen and f.const != seen[nm].const:
                    if f.const: nm += '_const'
                    else:
                        seen[nm].cname += '_const'; seen[nm + '_const'] = seen[nm]
                seen[nm] = f; f.cname = nm
        names = collections.Counter(f.cname for f in self.ctx.funcs.values() if f.cname)
        dups = [n for n, c in names.items() if c > 1]
        if dups: raise SystemExit('cxx2c: C name collision: ' + ', '.join(dups))

    def spec_for(self, cn):
        s = self.fnspecs.get(cn)
        if s: self.used_specs.add(cn)
        return s

    def has_stub(self, f): return True

    def is_trivial_special(self, f):
        if not f.rec or not (f.implicit or f.defaulted): return False
        r = self.ctx.records[f.rec]
        if not r.trivially_copyable: return False
        if f.kind == 'CXXConstructorDecl' and len(f.params) == 1 and self.T.record_of(tstr(f.params[0]['type'])) == f.rec: return True
        if f.name == 'operator=': return True
        return False

    def resolve_fn(self, tu, r, first_arg_type=None):
        """function referenced by a DeclRefExpr; falls back to (name, type) because decl ids are local to one dump"""
        f = tu.fn_by_id.get(r['id'])
        if f is not None: return f
        nm = r.get('name'); t = r.get('type', {}).get('qualType')
        cands = [f for f in self.ctx.funcs.values() if f.name == nm and f.type_str == t]
        if len(cands) > 1 and first_arg_type:
            rq = self.T.record_of(first_arg_type)
            c2 = [f for f in cands if f.rec == rq]
            if c2: cands = c2
        if len(cands) == 1: return cands[0]
        if len(cands) > 1: raise Unsupported(f'ambiguous cross-dump reference to {nm} : {t}')
        return None

    def resolve_method(self, tu, me, base_type, nargs):
        f = tu.fn_by_id.get(me.get('referencedMemberDecl'))
        if f is not None: return f
        bt = norm_std(base_type)
        if me.get('isArrow'): bt = re.sub(r'\s*\*\s*(const)?$', '', bt)
        rq = self.T.record_of(bt)
        if rq is None: return None
        is_const = bt.startswith('const ') or bt.endswith(' const')
        cands = [f for f in self.ctx.funcs.values() if f.rec == rq and f.name == me.get('name') and len(f.params) == nargs]
        if len(cands) > 1:
            c2 = [f for f in cands if f.const == is_const]
            if c2: cands = c2
        if len(cands) == 1: return cands[0]
        if len(cands) > 1: raise Unsupported(f"ambiguous cross-dump method {rq}::{me.get('name')}")
        return None

    def param_types_of_sig(self, sig):
        inner = sig_params(sig)
        return [p for p in split_targs(inner) if p and p != 'void']

    def ret_type(self, f):
        t = f.type_str
        ret = sig_ret(t)
        if f.template_inst or 'typename' in ret or 'type-parameter' in ret:
            def find_ret(x):
                if x.get('kind') == 'ReturnStmt' and x.get('inner'): return tstr(x['inner'][0]['type'])
                for c in x.get('inner', []):
                    r = find_ret(c)
                    if r: return r
            if f.body is not None:
                r = find_ret(f.body)
                if r: return r
                return 'void'
        return ret

    def find_ctor(self, rq, ctor_t):
        r = self.ctx.records[rq]
        for f in r.ctors:
            if f.type_str == ctor_t and f.body is not None: return f
        # compare normalised
        want = [self.T.strip_cv(p) for p in self.param_types_of_sig(ctor_t)]
        for f in r.ctors:
            have = [self.T.strip_cv(tstr(p['type'])) if False else self.T.strip_cv(p['type']['qualType']) for p in f.params]
            if have == want and f.body is not None: return f
        return None

    # ---- helpers generated on demand
    def make_wrapper(self, f):
        nm = f.cname.replace('_ctor', '_make', 1)
        if nm not in self.helper_protos:
            ps = self.c_params(f, with_this=False)
            names = [x.rsplit(' ', 1)[-1].lstrip('*') for x in ps]
            rt = self.T.c(f.rec)
            self.helper_protos[nm] = f"{rt} {nm}({', '.join(ps) or 'void'})"
            self.helper_specs = getattr(self, 'helper_specs', {}); self.helper_specs[nm] = self.spec_for(nm)
            self.helper_bodies[nm] = f"{{\n    {rt} __o;\n    {f.cname}({', '.join(['&__o'] + names)});\n    return __o;\n}}"
        return nm

    def new_wrapper(self, f):
        nm = f.cname.replace('_ctor', '_new', 1)
        if nm not in self.helper_protos:
            ps = self.c_params(f, with_this=False)
            names = [x.rsplit(' ', 1)[-1].lstrip('*') for x in ps]
            rt = self.T.c(f.rec)
            self.helper_protos[nm] = f"{rt} *{nm}({', '.join(ps) or 'void'})"
            self.helper_specs = getattr(self, 'helper_specs', {}); self.helper_specs[nm] = self.spec_for(nm)
            self.helper_bodies[nm] = (f"{{\n    {rt} *__o = ({rt} *)malloc(sizeof({rt}));\n    __CPROVER_assume(__o != 0);\n"
                                      f"    {f.cname}({', '.join(['__o'] + names)});\n    return __o;\n}}")
        return nm

    def new_object(self, em, rq, args):
        """make_unique<rq>(args...) / make_shared<rq>(args...)"""
        r = self.ctx.records[rq]
        cands = [f for f in r.ctors if len(f.params) == len(args) and f.body is not None]
        if len(args) == 1:
            at = em.ty(args[0]); arq = self.T.record_of(at)
            if arq is not None and (arq == rq or self.is_base(rq, arq)):
                want_move = args[0].get('valueCategory') == 'xvalue'
                cands2 = [f for f in cands if self.T.record_of(tstr(f.params[0]['type'])) == rq and tstr(f.params[0]['type']).endswith('&&') == want_move]
                if len(cands2) == 1:
                    f = cands2[0]
                    a = em.addr(args[0])
                    for _ in self.base_path(rq, arq): a = f"(&({a})->__base)"
                    em.note_call(f.cname)
                    return f"{self.new_wrapper(f)}({a})"
                raise Unsupported(f'make_*<{rq}>: copy/move constructor not defined in AST')
            cands = [f for f in cands if self.T.record_of(tstr(f.params[0]['type'])) != rq]
        if len(cands) != 1: raise Unsupported(f'make_*<{rq}> with {len(args)} args: {len(cands)} candidate constructors')
        f = cands[0]; a = []
        for x, p in zip(args, f.params):
            pt = tstr(p['type']); prq = self.T.record_of(pt); xt = em.ty(x); xrq = self.T.record_of(xt)
            if prq and xrq != prq:
                # implicit converting constructor inside std::make_*
                conv = [c for c in self.ctx.records[prq].ctors if len(c.params) == 1 and c.body is not None and self.T.record_of(tstr(c.params[0]['type'])) is None]
                if len(conv) != 1: raise Unsupported('implicit conversion to ' + prq)
                ct = self.T.c(self.T.strip_cv(tstr(conv[0].params[0]['type'])))
                v = f"{self.make_wrapper(conv[0])}(({ct})({em.e(x)}))"
                a.append(v if not self.T.is_ref(pt) else f"&(({self.T.c(prq)}[1]){{ {v} }})[0]")
            elif self.T.is_ref(pt): a.append(em.addr(x))
            else:
                y = x
                while y.get('kind') in ('MaterializeTemporaryExpr', 'ExprWithCleanups', 'CXXBindTemporaryExpr'): y = y['inner'][0]
                v = em.e(y)
                ct = self.T.c(pt)
                ct = re.sub(r'^const (?!.*\*)', '', ct)       # drop top-level const of scalars only
                ct = re.sub(r'\*\s*const$', '*', ct)
                a.append(f"(({ct})({v}))" if not prq else v)
        em.note_call(f.cname)
        return f"{self.new_wrapper(f)}({', '.join(a)})"

    def is_base(self, base, derived): return self.base_path(base, derived) is not None

    def base_path(self, base, derived):
        path = []; cur = derived
        while cur != base:
            r = self.ctx.records.get(cur)
            if not r or not r.bases: return None
            b = self.T.record_of(r.bases[0])
            if b is None: return None
            path.append(b); cur = b
        return path

    def find_if(self, em, args, n):
        """std::find_if(v.begin(), v.end(), lambda) -> generated linear search over the vector model; iterator = index"""
        def vec_of(a, which):
            a = em.skip_wrappers(a)
            while a.get('kind') in ('ImplicitCastExpr', 'CXXConstructExpr', 'MaterializeTemporaryExpr') and a.get('inner'): a = a['inner'][0]
            if a.get('kind') != 'CXXMemberCallExpr': raise Unsupported('find_if range')
            me = a['inner'][0]
            if me.get('name') != which: raise Unsupported('find_if range must be begin()/end()')
            return me['inner'][0]
        v0 = vec_of(args[0], 'begin'); v1 = vec_of(args[1], 'end')
        s0 = em.addr(v0); s1 = em.addr(v1)
        if s0 != s1: raise Unsupported('find_if over two different containers')
        lam = em.skip_wrappers(args[2])
        while lam.get('kind') in ('MaterializeTemporaryExpr', 'ImplicitCastExpr', 'CXXConstructExpr'): lam = lam['inner'][0]
        if lam.get('kind') != 'LambdaExpr': raise Unsupported('find_if predicate must be a lambda')
        cty = self.T.std_model(self.T.strip_cv(em.ty(v0)))
        if not cty or not self.std.is_generic_vec(cty): raise Unsupported('find_if container')
        closure = lam['inner'][0]
        op = [c for c in closure.get('inner', []) if c.get('kind') == 'CXXMethodDecl' and c.get('name') == 'operator()'][0]
        caps = [c for c in lam['inner'][1:] if c.get('kind') != 'CompoundStmt']
        cap_fields = [c for c in closure.get('inner', []) if c.get('kind') == 'FieldDecl']
        k = em.lambda_no; em.lambda_no += 1
        hname = f"{em.fn.cname}__find_if{k}"
        # build helper as a pseudo function
        sub = FnEmitter(self, None, em.tu)
        sub.fn = em.fn; sub.spec = self.spec_for(hname)
        params = [f"const {cty} *__v"]; call_args = [s0]
        for c, fd in zip(caps, cap_fields):
            if c.get('kind') != 'DeclRefExpr': raise Unsupported('lambda capture kind')
            r = c['referencedDecl']
            if not self.T.is_ref(tstr(fd['type'])): raise Unsupported('lambda capture by value')
            params.append(f"{self.T.c(tstr(fd['type']))}{r['name']}")
            sub.ref_ids.add(r['id']); call_args.append(em.addr(c))
        elem = [p for p in op.get('inner', []) if p.get('kind') == 'ParmVarDecl']
        if len(elem) != 1 or not self.T.is_ref(tstr(elem[0]['type'])): raise Unsupported('lambda parameter')
        sub.tu.byid[elem[0]['id']] = elem[0]
        body = [c for c in op.get('inner', []) if c.get('kind') == 'CompoundStmt'][0]
        stmts = body.get('inner', [])
        if len(stmts) != 1 or stmts[0].get('kind') != 'ReturnStmt': raise Unsupported('lambda body must be a single return')
        pred = sub.e(stmts[0]['inner'][0])
        lc = sub.loop_contract()
        text = ["{", "    size_t __i = 0;", "    for (; __i < __v->n; ++__i)"] + lc + [
                "    {", f"        {self.T.c(tstr(elem[0]['type']))}{elem[0]['name']} = &__v->d[__i];",
                f"        if ({pred})", "            break;", "    }", "    return __i;", "}"]
        self.helper_protos[hname] = f"size_t {hname}({', '.join(params)})"
        self.helper_bodies[hname] = text
        self.helper_specs = getattr(self, 'helper_specs', {}); self.helper_specs[hname] = sub.spec
        em.note_call(hname)
        return f"{hname}({', '.join(call_args)})"

    # ---- emission
    def c_params(self, f, with_this=True):
        ps = []
        if with_this and f.rec and not f.static and f.kind in ('CXXMethodDecl', 'CXXConstructorDecl', 'CXXConversionDecl'):
            ps.append(f"{'const ' if f.const else ''}{self.T.c(f.rec)} *this")
        for i, p in enumerate(f.params):
            nm = p.get('name') or f"_unnamed{i}"
            q = tstr(p['type'])
            c = self.T.c(q)
            ps.append(f"{c}{nm}" if c.endswith('*') else f"{c} {nm}")
        return ps

    def signature(self, f):
        self.T.use(f.tu, f.q.split('::')[:-1])
        rt = self.ret_type(f)
        if f.kind == 'CXXConstructorDecl': rc = 'void'
        else: rc = self.T.c(rt)
        ps = self.c_params(f)
        return f"{rc}{'' if rc.endswith('*') else ' '}{f.cname}({', '.join(ps) or 'void'})"

    def tag_lines(self, spec, items, prefix=''):
        """spec lines -> output lines; remembered so that the line table can be built at write time"""
        out = []
        for (text, ln) in items:
            m = re.search(r'//#\s*(.*)$', text)
            tags = m.group(1).split() if m else []
            body = re.sub(r'\s*//#.*$', '', text)
            out.append(SpecLine(prefix + body.strip() if prefix else body, spec.path, ln, tags))
        return out

    def emit_function(self, f):
        self.T.use(f.tu, f.q.split('::')[:-1])
        em = FnEmitter(self, f, f.tu)
        for i, p in enumerate(f.params):
            if not p.get('name'): em.names[p['id']] = f"_unnamed{i}"
        sig = self.signature(f)
        lines = [f"/* {f.q} : {f.type_str} */", sig]
        if em.spec:
            # VERIF_ARGn in a contract stands for the n-th parameter (so table-generated specs do not depend on parameter names)
            def sub_args(sl):
                t = str(sl)
                for i, p in enumerate(f.params, 1):
                    t = re.sub(r'\bVERIF_ARG%d\b' % i, p.get('name') or f"_unnamed{i-1}", t)
                if 'VERIF_ARG' in t: raise SystemExit(f"cxx2c: spec {f.cname}: VERIF_ARGn beyond the parameter list (extraction break)")
                return SpecLine(t, sl.path, sl.line, sl.tags)
            lines += [sub_args(x) for x in self.tag_lines(em.spec, em.spec.contract)]
        body = []
        if f.kind == 'CXXConstructorDecl':
            body += self.ctor_inits(em, f)
        g_entry = em.ghost('entry', '    ')
        inner = em.stmt(f.body, 0)
        # inner = ['{', ..., '}']
        g_exit = []
        if em.spec and 'exit' in em.spec.ghost:
            # exit ghost code also runs when control falls off the end
            g_exit = em.ghost('exit', '    ')
        lines += ['{'] + g_entry + body + inner[1:-1] + g_exit + ['}']
        if em.spec:
            for k in em.spec.loops:
                if ('loop', k) not in em.used_anchors:
                    # the function has fewer loops than the spec expects (e.g. a byte loop replaced by memcmp): nothing to apply the loop contract to;
                    # the function contract is still enforced on the new body
                    self.report.setdefault('unused_loop_contracts', []).append(f"{f.cname}#{k}")
            for a in em.spec.ghost:
                if ('ghost', a) not in em.used_anchors:
                    if a in getattr(em.spec, 'optional', set()):
                        if any('__CPROVER_assert' in t for t, _ in em.spec.ghost[a]): raise SystemExit(f"cxx2c: spec {f.cname}: optional @ghost? {a} must not contain assertions")
                        continue
                    raise SystemExit(f"cxx2c: spec {f.cname}: @ghost {a} matches no anchor (extraction break)")
            for a in em.spec.capture:
                if ('capture', a) not in em.used_anchors: raise SystemExit(f"cxx2c: spec {f.cname}: @capture {a} matches no call (extraction break)")
        return lines

    def ctor_inits(self, em, f):
        out = []
        for ci in f.inits:
            e = ci['inner'][0] if ci.get('inner') else None
            if 'baseInit' in ci:
                bq = self.T.record_of(tstr(ci['baseInit']))
                x = em.skip_wrappers(e)
                if x.get('kind') != 'CXXConstructExpr': raise Unsupported('base initialiser kind ' + x.get('kind'))
                ctor_t = x.get('ctorType', {}).get('qualType', '')
                bf = self.find_ctor(bq, ctor_t)
                args = [a for a in x.get('inner', []) if a.get('kind') != 'CXXDefaultArgExpr']
                if bf is None:
                    if not args and not self.ctx.records[bq].fields: continue
                    raise Unsupported(f'base constructor {bq} {ctor_t} not defined in AST')
                a = ['&this->__base'] + [em.value_for_param(y, tstr(p['type'])) for y, p in zip(args, bf.params)]
                em.note_call(bf.cname)
                out.append(f"    {bf.cname}({', '.join(a)});")
            elif 'anyInit' in ci:
                fld = ci['anyInit']; nm = fld.get('name')
                fd = f.tu.byid.get(fld['id'])
                if not nm:
                    # anonymous union member initialised through its named field: find IndirectField? handled by clang as init of the union's first named member
                    raise Unsupported('initialiser of anonymous member')
                x = e
                if x.get('kind') == 'CXXDefaultInitExpr':
                    if fd is None: raise Unsupported('default member initialiser: field not found')
                    init = [c for c in fd.get('inner', []) if c.get('kind', '').endswith(('Expr', 'Literal', 'Operator'))]
                    if not init: raise Unsupported('default member initialiser missing for ' + nm)
                    x = init[0]
                q = tstr(fld['type'])
                m = re.match(r'^(.*?)\s*\[(\d+)\]$', q)
                if m: raise Unsupported('array member initialiser')
                y = em.skip_wrappers(x)
                if y.get('kind') == 'InitListExpr' and not self.T.record_of(q) and not 'std::' in q:
                    items = y.get('inner', [])
                    v = em.e(items[0]) if items else '0'
                else:
                    v = em.e(x)
                out.append(f"    this->{nm} = {v};")
            elif 'delegatingInit' in ci:
                raise Unsupported('delegating constructor')
            else:
                raise Unsupported('ctor initialiser form')
        # anonymous-union members with default member initialisers: clang lists them via the IndirectFieldDecl; handled above if named
        return out

class SpecLine(str):
    def __new__(cls, text, path, line, tags):
        o = str.__new__(cls, text); o.path = path; o.line = line; o.tags = tags
        return o

# --------------------------------------------------------------------------- records / enums / driver

def emit_types(gen):
    ctx = gen.ctx; T = gen.T
    out = []
    out.append('/* ---- enums (typedef to the underlying type; constants are emitted as literals) ---- */')
    for q, en in ctx.enums.items():
        out.append(f"typedef {en.ctype} {cname(q)};")
        for k, v in en.consts.items():
            out.append(f"#define {cname(q)}__{k} (({cname(q)}){v})")
    out.append('/* ---- records ---- */')
    # C text of each record
    texts = collections.OrderedDict(); deps = {}
    anon_members = set()
    for q, r in ctx.records.items():
        if '::anon_union' in q or '::anon_struct' in q:
            # emitted inline in the parent when it is an anonymous member
            pass
    def fields_text(r, indent='    '):
        lines = []; n = 0
        recnode = r.node
        for c in recnode.get('inner', []):
            if c.get('kind') != 'FieldDecl': continue
            n += 1
            q = tstr(c['type'])
            if not c.get('name'):
                aq = T.resolve_anon(norm_std(q)) if '(anonymous' in q or '(unnamed' in q else T.record_of(q)
                ar = ctx.records[aq]
                lines.append(indent + ('union' if ar.union else 'struct') + (' __attribute__((packed))' if ar.packed else '') + ' {')
                lines += fields_text(ar, indent + '    ')
                lines.append(indent + '};')
                anon_members.add(aq)
            else:
                if T.is_ref(q): lines.append(indent + T.c(q) + c['name'] + ';')
                else: lines.append(indent + T.decl(q, c['name']) + ';')
        return lines
    for q, r in ctx.records.items():
        T.use(r.tu, q.split('::'))
        try:
            body = []
            for b in r.bases:
                bq = T.record_of(b)
                if bq is None: raise Unsupported('base ' + b)
                if body: raise Unsupported('multiple inheritance')
                body.append(f"    {T.c(bq)} __base;")
            body += fields_text(r)
            if not body: body.append('    char __empty;')
            head = ('union ' if r.union else 'struct ') + ('__attribute__((packed)) ' if r.packed else '') + cname(q)
            texts[q] = head + ' {\n' + '\n'.join(body) + '\n};'
        except Unsupported as e:
            texts[q] = None; gen.report['skipped'].append(('record ' + q, str(e)))
    # forward declarations + generated vectors
    for q, r in ctx.records.items():
        if texts[q] is not None and q not in anon_members:
            out.append(('union ' if r.union else 'struct ') + cname(q) + ';')
    out.append('/* ---- element-vector models (std::vector<T> for class / smart-pointer elements) ---- */')
    vec_lines = []
    def vecs():
        res = []
        for nm, elem in ctx.vec_structs.items():
            res.append(f"struct {nm} {{ {elem}{'' if elem.endswith('*') else ' '}*d; size_t n; unsigned char bad; /* ghost: 0 = every element was pushed under the model's element condition */ }};")
        return res
    # topological order by by-value use
    names = {cname(q): q for q in texts if texts[q] is not None and q not in anon_members}
    pseudo = {'map_slot': 'struct map_slot { struct ASAM_CMP_Decoder_SegmentedPacket value; uint8_t present; struct ASAM_CMP_Decoder_Endpoint key; size_t epoch; /* ghost: bumped by every erase (iterator invalidation) */ };\nstruct map_it { uint8_t at_end; size_t epoch; };'}
    items = collections.OrderedDict()
    for cn, q in names.items(): items[cn] = texts[q]
    if 'ASAM_CMP_Decoder_SegmentedPacket' in items: items['map_slot'] = pseudo['map_slot']
    def by_value_deps(text, me):
        ds = set()
        for m in re.finditer(r'(?:struct|union) (\w+)\s+(\*?)', text):
            if m.group(1) != me and m.group(2) != '*' and m.group(1) in items: ds.add(m.group(1))
        return ds
    done = []; doneset = set(); pending = list(items)
    out_vecs_at = len(out); 
    while pending:
        prog = False
        for cn in list(pending):
            if by_value_deps(items[cn], cn) <= doneset:
                done.append(cn); doneset.add(cn); pending.remove(cn); prog = True
        if not prog: raise SystemExit('cxx2c: cyclic by-value record dependency: ' + ', '.join(pending))
    out += vecs()
    for cn in done: out.append(items[cn])
    return out

MODELS_INCLUDE = '#include "models.h"'
MODEL_FUNCTIONS = ['verif_memcpy', 'vec_u8_make_n', 'vec_u8_copy', 'vec_u8_resize', 'vec_u8_resize_val', 'vec_u8_assign_n', 'vec_u8_assign_copy', 'vec_frames_push_back',
                   'sv_find', 'sv_from_cstr', 'str_from_int', 'map_slot_index', 'map_slot_erase', 'map_slot_find', 'map_slot_erase_it', 'map_it_deref', 'verif_memcmp', 'vec_u8_assign_range', 'vec_u8_make_range']

def run(ast_dir, spec_paths, excluded_path, out_c, out_map, out_report, layouts_path=None, drop=(), strip_ghost=()):
    ctx = Ctx()
    excluded = {}
    if excluded_path and os.path.exists(excluded_path):
        for ln in open(excluded_path):
            ln = ln.strip()
            if not ln or ln.startswith('#'): continue
            nm, _, why = ln.partition(' ')
            excluded[nm] = why.strip()
    fnspecs, harnesses = parse_specs(spec_paths)
    helper_specs = sorted(k for k, v in fnspecs.items() if getattr(v, 'helper', False))
    for nm in strip_ghost:
        # the loop this function's ghost code instruments is gone: the function CONTRACT is still enforced, on the new body, without the ghost instrumentation
        if nm in fnspecs: fnspecs[nm].ghost = {}; fnspecs[nm].loops = {}; fnspecs[nm].capture = set()
    dropped = []
    for nm in drop:
        # a helper contract that does not fit the current code any more: the helper is verified INLINED in its callers instead
        if nm in fnspecs and getattr(fnspecs[nm], 'helper', False):
            del fnspecs[nm]; dropped.append(nm)
            harnesses = [h for h in harnesses if h['enforce'] != nm]
            for h in harnesses: h['replace'] = [x for x in h['replace'] if x != nm]
    tus = []
    for fn in sorted(os.listdir(ast_dir)):
        if not fn.endswith('.json'): continue
        p = os.path.join(ast_dir, fn)
        if os.path.getsize(p) == 0: continue
        tu = TU(ctx, p); tu.index_all(load_docs(p)); tus.append(tu)
    gen = Generator(ctx, fnspecs, excluded)
    pj = os.path.join(os.path.dirname(os.path.abspath(spec_paths[0])), 'params.json') if spec_paths else None
    if pj and os.path.exists(pj):
        rec = json.load(open(pj)); gen.recorded_params = rec.get('params', rec); gen.recorded_locals = rec.get('locals', {})
    gen.assign_names()
    gen.known_cnames = set(f.cname for f in ctx.funcs.values() if f.cname)
    # translate functions first (this also discovers the vector models that are needed)
    bodies = collections.OrderedDict(); protos = collections.OrderedDict()
    todo = [f for f in ctx.funcs.values() if f.body is not None and f.kind != 'CXXDestructorDecl']
    def trivial_special(f):
        if f.rec and '::anon_' in f.rec: return True      # members of anonymous unions/structs cannot be named by the library
        return gen.is_trivial_special(f)
    todo = [f for f in todo if not trivial_special(f) or gen.report.setdefault('trivial_special', []).append((f.cname, f.q))]
    for f in todo:
        try:
            protos[f.cname] = gen.signature(f)
        except Unsupported as e:
            protos[f.cname] = None
    for f in todo:
        if f.cname in excluded:
            gen.report['excluded'].append((f.cname, f.q, excluded[f.cname])); continue
        try:
            if protos[f.cname] is None: gen.signature(f)
            bodies[f.cname] = gen.emit_function(f)
            gen.report['translated'].append((f.cname, f.q, f.type_str, f.tu.path))
        except Unsupported as e:
            gen.report['skipped'].append((f.cname, f.q + ' : ' + str(e)))
    # stubs: declared-only prototypes for excluded functions and for bodiless library functions
    for f in ctx.funcs.values():
        if f.kind == 'CXXDestructorDecl' or f.cname in protos or trivial_special(f): continue
        try: protos[f.cname] = gen.signature(f)
        except Unsupported: pass
    types = emit_types(gen)
    L = []
    L.append('/* GENERATED by /verif/tools/cxx2c.py from the clang AST of /repo - do not edit */')
    L.append(MODELS_INCLUDE.replace('models.h', 'prelude.h'))
    L += types
    for q in ctx.records: L.append(f"#define HAVE_{cname(q)} 1")
    L.append(MODELS_INCLUDE)
    L.append(MODELS_INCLUDE.replace('models.h', 'vocab.h'))
    for nm, elem in ctx.vec_structs.items():
        L.append(f"#ifndef VEC_PUSH_REQ_{nm}\n#define VEC_PUSH_REQ_{nm}(x) 1\n#endif")
        L.append(f"#ifndef VEC_ELEM_OK_{nm}\n#define VEC_ELEM_OK_{nm}(x) 1\n#endif")
        L.append(f"DEFINE_VEC_MODEL({nm}, {elem})")
    L.append('/* ---- prototypes ---- */')
    slices = {'proto': {}, 'fn': {}, 'pre': None}     # text of the verified translation unit, split per function (content-addressed reuse of harness runs)
    for cn, p in protos.items():
        if p: L.append(p + ';'); slices['proto'][cn] = p + ';'
    for nm, p in gen.helper_protos.items(): L.append(p + ';'); slices['proto'][nm] = p + ';'
    n_pre_a = len(L)
    L.append('#include "ghost.h"')
    # excluded (untranslated) functions may carry an ASSUMED contract: declaration + contract clauses, no body
    for f in ctx.funcs.values():
        if f.cname in excluded and f.cname in fnspecs and protos.get(f.cname):
            sp = fnspecs[f.cname]
            if sp.ghost or sp.loops: raise SystemExit(f"cxx2c: spec {f.cname}: an excluded function takes a contract only")
            L.append(f"/* {f.q} : excluded from translation ({excluded[f.cname]}); ASSUMED contract */")
            L.append(protos[f.cname]); L += gen.tag_lines(sp, sp.contract); L.append(';')
            gen.used_specs.add(f.cname)
    L.append('/* ---- generated helpers (value/heap construction wrappers, std algorithm instances) ---- */')
    n_pre_b = len(L)
    for nm, p in gen.helper_protos.items():
        h0 = len(L)
        L.append(p)
        hs = getattr(gen, 'helper_specs', {}).get(nm)
        if hs: L += gen.tag_lines(hs, hs.contract)
        b = gen.helper_bodies[nm]
        b = b if isinstance(b, list) else b.split('\n')
        if hs and hs.ghost:
            for a in hs.ghost:
                if a != 'entry': raise SystemExit(f"cxx2c: spec {nm}: generated helpers support only '@ghost entry'")
            b = [b[0], '    /* ghost entry */'] + gen.tag_lines(hs, hs.ghost['entry'], '    ') + b[1:]
        L += b
        slices['fn'][nm] = '\n'.join(str(x) for x in L[h0:])
    L.append('/* ---- translated functions ---- */')
    for cn, b in bodies.items():
        start = len(L) + 1
        L += b
        gen.fn_ranges[cn] = (start, len(L))
        slices['fn'][cn] = '\n'.join(str(x) for x in b)
    # everything that is not a prototype or a function definition: types, macros, vector models, assumed contracts of excluded functions
    proto_lines = set(slices['proto'].values())
    slices['pre'] = '\n'.join(str(x) for x in L[:n_pre_b] if str(x) not in proto_lines)
    # flatten (a line may contain newlines) and build the line table
    flat = []; linemap = {}
    for x in L:
        parts = x.split('\n') if not isinstance(x, SpecLine) else [x]
        for p in parts:
            flat.append(str(p))
            if isinstance(p, SpecLine): linemap[len(flat)] = {'spec': p.path, 'line': p.line, 'tags': p.tags, 'text': str(p).strip()}
    open(out_c, 'w').write('\n'.join(flat) + '\n')
    # recompute function ranges on flattened text
    ranges = {}
    cur = None
    for i, l in enumerate(flat, 1):
        m = re.match(r'^/\* (.*) : .* \*/$', l)
    # spec keys without target: an extraction break, except for @helper contracts (e.g. of construction wrappers the translator generates on demand):
    # a helper that the current code does not have any more needs no contract
    missing_all = [k for k in fnspecs if k not in gen.used_specs]
    missing = [k for k in missing_all if not getattr(fnspecs[k], 'helper', False)]
    for nm in missing_all:
        if nm in missing: continue
        dropped.append(nm)
        harnesses = [h for h in harnesses if h['enforce'] != nm]
        for h in harnesses: h['replace'] = [x for x in h['replace'] if x != nm]
    json.dump({'lines': linemap, 'harnesses': harnesses, 'slices': slices, 'loop_invariants': gen.loop_invs}, open(out_map, 'w'), indent=0)
    rep = {'renamed_parameters': gen.report.get('renamed_parameters', []), 'param_names': {'params': {f.cname: [p.get('name') for p in f.params] for f in ctx.funcs.values() if f.cname and f.cname in fnspecs}, 'locals': {f.cname: local_decls(f.body) for f in ctx.funcs.values() if f.cname and f.cname in fnspecs and f.body and local_decls(f.body)}}, 'ghost_stripped': sorted(strip_ghost), 'unused_loop_contracts': gen.report.get('unused_loop_contracts', []), 'helper_specs': helper_specs, 'dropped_helper_contracts': dropped, 'translated': gen.report['translated'], 'skipped': gen.report['skipped'], 'excluded': gen.report['excluded'],
           'spec_without_target': missing, 'n_records': len(ctx.records), 'n_enums': len(ctx.enums),
           'cnames': {f.cname: {'q': f.q, 'type': f.type_str, 'has_body': f.body is not None} for f in ctx.funcs.values() if f.cname}}
    for nm in gen.helper_protos: rep['cnames'][nm] = {'q': nm + ' (generated helper)', 'type': gen.helper_protos[nm], 'has_body': True}
    for nm in MODEL_FUNCTIONS: rep['cnames'][nm] = {'q': nm + ' (std model, assumed contract)', 'type': '', 'has_body': False}
    for nm in ctx.vec_structs:
        for op in ('push_back', 'pop_back', 'clear', 'move', 'assign_move', 'copy'): rep['cnames'][f"{nm}_{op}"] = {'q': f"{nm}_{op} (std model, assumed contract)", 'type': '', 'has_body': False}
    json.dump(rep, open(out_report, 'w'), indent=1)
    return rep

if __name__ == '__main__':
    import argparse
    ap = argparse.ArgumentParser()
    ap.add_argument('--ast', required=True); ap.add_argument('--spec', action='append', default=[])
    ap.add_argument('--excluded'); ap.add_argument('--out', required=True); ap.add_argument('--map', required=True); ap.add_argument('--report', required=True)
    ap.add_argument('--strict', action='store_true')
    a = ap.parse_args()
    rep = run(a.ast, a.spec, a.excluded, a.out, a.map, a.report)
    sys.stderr.write(f"cxx2c: {len(rep['translated'])} functions translated, {len(rep['skipped'])} skipped, {len(rep['excluded'])} excluded\n")
    for nm, why in rep['skipped']: sys.stderr.write(f"   SKIPPED {nm}: {why}\n")
    if rep['spec_without_target']:
        sys.stderr.write('cxx2c: spec keys without a target function (extraction break): ' + ', '.join(rep['spec_without_target']) + '\n')
        sys.exit(2)
    if a.strict and rep['skipped']: sys.exit(2)
