#!/bin/bash
# usage: benign_check.sh <id>   -- applies seeded/benign/<id>/patch.diff in a scratch worktree, builds, runs the test suite, then runs the listed checks: every one must exit 0
set -u
ID=$1; M=/verif/seeded/benign/$ID; W=/tmp/mut/run/benign_$ID
mkdir -p /tmp/mut/run/evidence; rm -rf $W; git -C /repo worktree prune; git -C /repo worktree add -q --detach $W HEAD || exit 9
git -C $W apply $M/patch.diff || { echo "$ID: PATCH DOES NOT APPLY"; git -C /repo worktree remove --force $W; exit 8; }
( cd $W && cmake -G Ninja -B _build -DCMAKE_BUILD_TYPE=RelWithDebInfo >/dev/null 2>&1 && cmake --build _build >/tmp/mut/run/benign_$ID.build.log 2>&1 ); BRC=$?
T=$($W/_build/bin/test_asam_cmp 2>&1 | tail -1)
echo "$ID build=$BRC tests='$T'"
for P in $(python3 -c "import json;print(' '.join(json.load(open('$M/meta.json'))['checks']))"); do
  ( cd /verif && VERIF_REPO=$W VERIF_EVIDENCE_DIR=/tmp/mut/run/evidence ./vf check $P --quick > /tmp/mut/run/benign_$ID.$P.log 2>&1 ); RC=$?
  echo "$ID $P exit=$RC $(grep -c '^VIOLATION' /tmp/mut/run/benign_$ID.$P.log) violation line(s) $(grep '^VIOLATION\|^INCONCLUSIVE' /tmp/mut/run/benign_$ID.$P.log | head -2 | cut -c1-200 | tr '\n' ' ')"
done
git -C /repo worktree remove --force $W
