#!/usr/bin/env python3
"""writes /verif/MANIFEST.json from the table below (kept in one place so that it is always valid)"""
import json, os
ROOT = os.path.dirname(os.path.dirname(os.path.abspath(__file__)))
TB = ("Trusted: clang 14 AST, the cxx2c translation rules (mechanical, must-fire, abort on unknown), CBMC 6.11 / DFCC, "
      "the assumed contracts of the std:: models (vector, unordered_map single-slot view, smart pointers as raw pointers, memcpy); "
      "x86-64 LP64 little-endian; no allocation failure, no exceptions, no deallocation. ")
CLAIMS = {
 'C11': ('Every setter/getter of every header class, payload-class forwarder and PayloadType/Packet accessor is enforced (DFCC) against a contract generated from the wire-layout table: for arbitrary prior contents and every in-range value EVERY byte of the object is specified after the call (field bits = value, every other bit/byte/data byte unchanged), getters = big-endian decode of the raw bytes. Loop-free code over full-domain symbolic inputs: complete proof per accessor.', '5 C11',
         TB + 'The round trip get(set(v))==v follows from the two table expressions being inverse on in-range values (checked by lemma harnesses).',
         'CBMC function contracts (DFCC) generated from layout tables'),
 'C12': ('Same harnesses as C11 read in the layout direction: postconditions are stated at the table offsets/masks (written from the protocol layouts, not from the library headers), big-endian; default constructors are proved to produce the table defaults (reserved bytes zero); header sizes are static-asserted.', '5 C12',
         TB + 'The layout table itself (specs/layout/wire.tbl) is the oracle and is trusted.',
         'CBMC function contracts (DFCC) generated from layout tables'),
}
ALL = ['C%02d' % i for i in range(1, 21)]
NA_REASON = {}
def main():
    checks = []
    for pid, (text, ref, note, tech) in CLAIMS.items():
        checks.append({'property_id': pid, 'quick_cmd': f'./vf check {pid} --quick', 'thorough_cmd': f'./vf check {pid} --thorough',
                       'evidence_file': f'evidence/{pid}.json', 'replay_cmd_template': './vf replay {path}', 'engine': 'vf',
                       'level_claimed': {'category': 'proof', 'text': text, 'design_ref': 'DESIGN.md §' + ref}, 'level_note': note, 'technique': tech})
    na = [{'property_id': p, 'reason': NA_REASON.get(p, 'contracts for this property are not built yet in this round (planned, see DESIGN.md §5); not claimed until its harnesses exist')} for p in ALL if p not in CLAIMS]
    m = {'version': 1, 'setup_cmd': './vf setup',
         'hooks': {'guard': 'ASAM_CMP_VERIF', 'enable': 'no hooks are needed: contracts and ghost code are spliced into the C generated from the clang AST of /repo (declared guard is unused)',
                   'baseline_off_cmd': 'cmake --build /repo/_build && ctest --test-dir /repo/_build -j8 --timeout 900', 'source_commits': [], 'add_only': True},
         'engines': [{'name': 'vf', 'path': 'vf', 'serves_properties': sorted(CLAIMS), 'kind_free_text': 'clang-AST -> C translator (tools/cxx2c.py) + contracts in specs/ + CBMC 6.11 DFCC per function; native replay drivers in tools/replay.py'}],
         'checks': checks, 'not_applicable': na,
         'notes': 'Contract-based deductive verification of C generated mechanically from the real sources on every run. Exit 0 pass, 1 VIOLATION, 2 inconclusive (never a violation). Fixed defects and known findings: known_findings.txt.'}
    json.dump(m, open(os.path.join(ROOT, 'MANIFEST.json'), 'w'), indent=1)
if __name__ == '__main__': main()
