#!/usr/bin/env python3
"""writes /verif/MANIFEST.json from the table below (kept in one place so that it is always valid)"""
import json, os
ROOT = os.path.dirname(os.path.dirname(os.path.abspath(__file__)))
TB = ("Trusted: clang 14 AST, the cxx2c translation rules (mechanical, must-fire, abort on unknown), CBMC 6.11 / DFCC, "
      "the assumed contracts of the std:: models (vector, unordered_map single-slot view, smart pointers as raw pointers, memcpy); "
      "x86-64 LP64 little-endian; no allocation failure, no exceptions, no deallocation. ")
CLAIMS = {
 'C01': ('Simulation argument with machine-checked parts: (1) the real Encoder (putPacket segment loop closed by a loop contract, frame open / emit header / copy slice / close events) refines the ghost monitor M_E for every payload length 1..65535, every max 25..65559, min<=max, every message type: slices are the next payload bytes in order, directly behind their header, every byte once; every serialised header byte is specified (getRawMessageHeader/addNewDataHeader/addNewCMPFrame at the table offsets); (2) Decoder::decode implements the reassembly transition relation delta for arbitrary prior slot state and delivers each complete unsegmented message from wire bytes at the table offsets (Packet(msgType,data,size), create); (3) consistent payloads are returned typed. The induction over events/frames is on paper.', '5 C01',
         TB + 'The batch loop of encode<It> is covered by lemmas over the contracts (zero iterations, inductive step), not by a loop contract. Simulation between M_E and delta and the induction over the event sequence are meta-level arguments in DESIGN.md.',
         'CBMC function + loop contracts (DFCC), ghost monitor, lemma harnesses'),
 'C02': ('Decoder::decode enforced against a contract for every buffer (NULL or any bytes, size up to 2^31-1) and every prior reassembly slot state: all reads inside the buffer (CBMC pointer obligations in the translated bodies), the buffer is not assignable (frame condition), the message walk terminates (decreases clause), at most one packet per 12 bytes, every delivered packet non-null with payload and freshly allocated storage; message / payload validators proved to accept only buffers whose inner lengths fit.', '5 C02',
         TB + 'The TECMP branch is under contract separately (tecmp.spec); deallocation is not modelled (no use-after-free results).',
         'CBMC function + loop contracts (DFCC)'),
 'C03': ('Each payload validator is enforced against ret => Valid_T(bytes) (weakest predicate under which every accessor stays inside the buffer, written over raw bytes) and Valid_T & no error flags => ret; every variable-length accessor is enforced under Valid_T: CBMC proves all reads in bounds and the reported pointer/length views inside the payload; Packet::create / Packet(msgType,data,size) are proved to return a typed payload only over bytes satisfying Valid_T, and Packet::isValidPacket <=> message fits.', '5 C03',
         TB, 'CBMC function contracts (DFCC), proof by cases over the payload kind'),
 'C04': ('Layer A: decode\'s loop contract tiles the frame (cursor = 8 + sum(16+len)), each delivery event is asserted to be built from the next message on the wire, inside the frame, with version/device/stream/message type of the frame header; at exit the first undelivered message is cut short, invalid or a segment. Layer B: Packet(msgType,data,size) / create / Payload ctor: timestamp, interface or vendor id, flags, payload length, type and every payload byte equal the big-endian wire fields at the table offsets; inconsistent or error-flagged payloads come back marked invalid.', '5 C04',
         TB, 'CBMC function + loop contracts (DFCC), ghost monitor at delivery events'),
 'C05': ('Per call, for arbitrary slot state: SegmentedPacket constructor keeps exactly 16 + declared bytes of the first segment; addSegment accepts iff same version, same message type, counter = slot counter + 1 modulo 2^16, open slot, continuing segment whose declared bytes lie in the frame; appends exactly the declared bytes (provenance at the ghost index), updates the length field; getPacket builds the packet from the buffer with the first segment\'s version/type; decode\'s delta contract: first segment (re)opens, intermediary appends, last delivers exactly once and closes; the table key equality is identity on (device id, stream id). Interleaving with other endpoints follows from C18\'s frame condition; induction over the segments on paper.', '5 C05',
         TB, 'CBMC function + loop contracts (DFCC), single-slot map model'),
 'C06': ('Safety: an accepted continuation leaves stored bytes unchanged and appends only this frame\'s declared bytes, is accepted only with the slot\'s version, type and next counter; every other frame of the endpoint closes or restarts the slot; delivery only from a slot whose accepted segment is last. Recovery: from ANY slot state a first segment reopens, a rejected segment / unsegmented / invalid message leaves the slot closed. Per-call obligations proved; induction over the faulted stream on paper.', '5 C06',
         TB, 'CBMC function + loop contracts (DFCC)'),
 'C07': ('M_E guards on the real putPacket / addNewCMPFrame / addNewDataHeader / getEncodedData: every message complete inside its frame, >= 1 message per closed frame, frame size = max(used, min) <= max, rest of a new frame zero, each payload byte exactly once and in order (ghost position), empty batch yields no frames and is memory-safe.', '5 C07',
         TB + 'Layer A abstracts the CONTENTS of the frame buffer (checked: no layer-A clause or function body reads frame bytes); byte-level facts are proved in the leaves\' own harnesses. std::vector<std::vector<uint8_t>> is modelled with one stable buffer for the last frame.',
         'CBMC function + loop contracts (DFCC), ghost monitor'),
 'C08': ('checkIfSegmented returns true iff 16+len > max-8 and leaves an empty open frame for the first segment; emit-event preconditions on addNewDataHeader: message type == frame type, nothing follows a segment, a segment is alone, first/intermediary*/last order, non-last segments fill the frame, fitting packets are not split and are appended whenever they fit; buildSegmentationFlag table; frame header announces the new type after a type change.', '5 C08',
         TB, 'CBMC function + loop contracts (DFCC), ghost monitor'),
 'C09': ('addNewCMPFrame stamps counter+1 mod 2^16 (symbolic uint16, wrap included), the encoder\'s device/stream id, the batch version and the current message type into bytes 0-7 of every new frame; setDeviceId/setStreamId/restart reset the counter; init and getEncodedData keep it; getSequenceCounter returns it; every opened frame is returned.', '5 C09',
         TB + 'Induction over the history of operations on paper.', 'CBMC function contracts (DFCC)'),
 'C10': ('init (start of every encode) and getEncodedData/clearEncodingMetadata establish the canonical per-call state (no frames, no free bytes, no template, no remembered message type); putPacket is proved from exactly that state with symbolic sequence counter; the segmentation decision is a function of (len, max) only.', '5 C10',
         TB, 'CBMC function contracts (DFCC), lemma harnesses'),
 'C11': ('Every setter/getter of every header class, payload-class forwarder and PayloadType/Packet accessor is enforced (DFCC) against a contract generated from the wire-layout table: for arbitrary prior contents and every in-range value EVERY byte of the object is specified after the call (field bits = value, every other bit/byte/data byte unchanged), getters = big-endian decode of the raw bytes. Loop-free code over full-domain symbolic inputs: complete proof per accessor.', '5 C11',
         TB + 'The round trip get(set(v))==v follows from the two table expressions being inverse on in-range values.',
         'CBMC function contracts (DFCC) generated from layout tables'),
 'C12': ('Same harnesses as C11 read in the layout direction: postconditions are stated at the table offsets/masks (written from the protocol layouts, not from the library headers), big-endian; payload default constructors are proved to produce zeroed headers of the table size; getRawCmpHeader / getRawMessageHeader serialise every byte as the tables prescribe.', '5 C12',
         TB + 'The layout table itself (specs/layout/wire.tbl) is the oracle and is trusted.',
         'CBMC function contracts (DFCC) generated from layout tables'),
 'C17': ('Postconditions of decode on the observed slot: present afterwards iff the last processed message was a first segment or an accepted intermediary; otherwise absent (including the default entry created by operator[] on an orphan segment); null / short / TECMP input performs no map operation (ghost counter); pending bytes = 16 + sum of declared lengths of accepted segments.', '5 C17',
         TB + 'Single-slot view of std::unordered_map (per-key independence assumed); induction over the history on paper.', 'CBMC function + loop contracts (DFCC), single-slot map model'),
 'C18': ('Every map operation in decode is proved to use the key {BE16(frame+2), frame[5]} of the current frame (assertion inside the map model at all call sites, for all inputs); decode\'s assigns clause contains only that slot, the result and fresh memory; key equality is identity on (device id, stream id); TECMP / short / null buffers perform zero map operations.', '5 C18',
         TB + 'Projection lemma (delta on the projected history = delta on the full history) and induction on paper.', 'CBMC function + loop contracts (DFCC), single-slot map model'),
}
ALL = ['C%02d' % i for i in range(1, 21)]
NA_REASON = {}
def main():
    checks = []
    for pid, (text, ref, note, tech) in CLAIMS.items():
        checks.append({'property_id': pid, 'quick_cmd': f'./vf check {pid} --quick', 'thorough_cmd': f'./vf check {pid} --thorough',
                       'evidence_file': f'evidence/{pid}.json', 'replay_cmd_template': './vf replay {path}', 'engine': 'vf',
                       'level_claimed': {'category': 'proof', 'text': text, 'design_ref': 'DESIGN.md §' + ref}, 'level_note': note, 'technique': tech})
    na = [{'property_id': p, 'reason': NA_REASON.get(p, 'contracts for this property are not built yet in this round (planned, see DESIGN.md §5); not claimed until its harnesses exist')} for p in ALL if p not in CLAIMS]
    m = {'version': 1, 'setup_cmd': './vf setup',
         'hooks': {'guard': 'ASAM_CMP_VERIF', 'enable': 'no hooks are needed: contracts and ghost code are spliced into the C generated from the clang AST of /repo (declared guard is unused)',
                   'baseline_off_cmd': 'cmake --build /repo/_build && ctest --test-dir /repo/_build -j8 --timeout 900', 'source_commits': [], 'add_only': True},
         'engines': [{'name': 'vf', 'path': 'vf', 'serves_properties': sorted(CLAIMS), 'kind_free_text': 'clang-AST -> C translator (tools/cxx2c.py) + contracts in specs/ + CBMC 6.11 DFCC per function; native replay drivers in tools/replay.py'}],
         'checks': checks, 'not_applicable': na,
         'notes': 'Contract-based deductive verification of C generated mechanically from the real sources on every run. Exit 0 pass, 1 VIOLATION, 2 inconclusive (never a violation). Fixed defects and known findings: known_findings.txt.'}
    json.dump(m, open(os.path.join(ROOT, 'MANIFEST.json'), 'w'), indent=1)
if __name__ == '__main__': main()
