#!/usr/bin/env python3
"""helper for minimal edits of /repo files that preserves the file's line endings (many sources use CRLF)"""
import sys
def edit(path, old, new, count=1):
    raw = open(path, 'rb').read()
    crlf = b'\r\n' in raw
    s = raw.decode('utf8')
    if crlf: s = s.replace('\r\n', '\n')
    if s.count(old) != count: raise SystemExit(f"{path}: expected {count} occurrence(s) of the old text, found {s.count(old)}")
    s = s.replace(old, new)
    if crlf: s = s.replace('\n', '\r\n')
    open(path, 'wb').write(s.encode('utf8'))
