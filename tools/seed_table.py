#!/usr/bin/env python3
"""prints the markdown table of DESIGN.md section 10 from seeded/*/meta.json (which check catches which seeded change)"""
import json, glob, os, re
ROOT = os.path.dirname(os.path.dirname(os.path.abspath(__file__)))
rows = []
for d in sorted(glob.glob(os.path.join(ROOT, 'seeded', 'C*'))):
    m = json.load(open(os.path.join(d, 'meta.json')))
    ident = os.path.basename(d)
    what = re.sub(r'\s+', ' ', m.get('what', ''))
    what = what[:230] + ('…' if len(what) > 230 else '')
    obl = []
    for o in m.get('failed_obligations', [])[:3]:
        obl.append(o.replace(' (replayed natively)', ' **(replayed)**').replace(' (no native reproduction)', ''))
    verdict = 'caught' if m.get('detected') else ('inconclusive (exit 2): ' + m.get('why_not', '')) if m.get('check_exit') == 2 else 'MISSED'
    rows.append(f"| {ident} | {m.get('property')} | {what} | {verdict} | {'<br>'.join(obl)} |")
table = '| id | property | change | verdict of `vf check` | first failed obligations |\n|---|---|---|---|---|\n' + '\n'.join(rows)
import sys
if '--write' in sys.argv:
    p = os.path.join(ROOT, 'DESIGN.md'); d = open(p).read()
    a = d.index('<!-- SEED-TABLE-BEGIN -->') + len('<!-- SEED-TABLE-BEGIN -->'); b = d.index('<!-- SEED-TABLE-END -->')
    open(p, 'w').write(d[:a] + '\n' + table + '\n' + d[b:])
else:
    print(table)
