// Explicit instantiations of the Encoder::encode templates (header-only code that no src/*.cpp instantiates),
// so that their bodies (the batch loops) appear in the clang AST and are translated like every other function.
#include <asam_cmp/encoder.h>

template std::vector<std::vector<uint8_t>> ASAM::CMP::Encoder::encode<const ASAM::CMP::Packet*, true>(
    const ASAM::CMP::Packet*, const ASAM::CMP::Packet*, const ASAM::CMP::DataContext&);
template std::vector<std::vector<uint8_t>> ASAM::CMP::Encoder::encode<const std::shared_ptr<ASAM::CMP::Packet>*, true>(
    const std::shared_ptr<ASAM::CMP::Packet>*, const std::shared_ptr<ASAM::CMP::Packet>*, const ASAM::CMP::DataContext&);
